#!/usr/bin/env python3
"""Confirms a sub-agent's seeded change in a scratch worktree:
 patch applies; crate builds; the 92 tests pass with it; the demo fails with it and passes without.
 usage: confirm_seed.py <seed dir, e.g. /tmp/seed-C01/m1> <name under /verif/seeded>"""
import json, os, subprocess, sys, shutil
src, name = sys.argv[1], sys.argv[2]
wt = f"/tmp/confirm-{name}"
def sh(cmd, **kw):
    return subprocess.run(cmd, shell=True, stdout=subprocess.PIPE, stderr=subprocess.STDOUT, text=True, **kw)
sh(f"git -C /repo worktree remove --force {wt}"); shutil.rmtree(wt, ignore_errors=True)
r = sh(f"git -C /repo worktree add --detach {wt} HEAD")
res = {"source": src}
try:
    demo = f"{wt}/memcrs/tests/demo_{name.replace('-','_')}.rs"
    os.makedirs(f"{wt}/memcrs/tests", exist_ok=True)
    env = "CARGO_NET_OFFLINE=true CARGO_TARGET_DIR=/tmp/confirm-target"
    # clean tree: demo passes
    shutil.copy(f"{src}/demo.rs", demo)
    t = os.path.basename(demo)[:-3]
    r = sh(f"cd {wt} && {env} cargo test --offline -p memcrs --test {t} -- --test-threads=1 2>&1 | tail -15")
    res["demo_clean_pass"] = "test result: ok" in r.stdout
    res["demo_clean_tail"] = r.stdout[-600:]
    os.remove(demo)
    r = sh(f"git -C {wt} apply {src}/patch.diff")
    res["applies"] = r.returncode == 0
    r = sh(f"cd {wt} && {env} cargo test --workspace --no-fail-fast --offline 2>&1 | grep -E '^test result' | head -1")
    res["suite"] = r.stdout.strip()
    res["suite_pass"] = "92 passed; 0 failed" in r.stdout
    shutil.copy(f"{src}/demo.rs", demo)
    r = sh(f"cd {wt} && {env} cargo test --offline -p memcrs --test {t} -- --test-threads=1 2>&1 | tail -25")
    res["demo_patched_fails"] = ("test result: FAILED" in r.stdout) or ("panicked" in r.stdout and "test result: ok" not in r.stdout)
    res["demo_patched_tail"] = r.stdout[-900:]
finally:
    sh(f"git -C /repo worktree remove --force {wt}"); shutil.rmtree(wt, ignore_errors=True)
res["confirmed"] = bool(res.get("applies") and res.get("suite_pass") and res.get("demo_clean_pass") and res.get("demo_patched_fails"))
print(json.dumps({k: v for k, v in res.items() if not k.endswith("_tail")}))
if res["confirmed"]:
    d = f"/verif/seeded/{name}"
    os.makedirs(d, exist_ok=True)
    shutil.copy(f"{src}/patch.diff", d); shutil.copy(f"{src}/demo.rs", d)
    try: meta = json.load(open(f"{src}/meta.json"))
    except Exception: meta = {}
    meta["confirmed_by_main"] = {"suite": res["suite"], "demo_on_clean_tree": "passes", "demo_with_patch": "fails",
        "ran": "confirm_seed.py: git worktree of /repo HEAD; cargo test --workspace (92 pass) with patch; demo as memcrs/tests/*.rs with and without patch"}
    meta["origin"] = "sub-agent given only the property text and a scratch worktree"
    json.dump(meta, open(f"{d}/meta.json", "w"), indent=1)
else:
    print(res.get("demo_clean_tail","")); print(res.get("demo_patched_tail",""))
