#!/usr/bin/env python3
"""Regenerates the seed table of DESIGN.md section 7 from seeded/*/meta.json and seeded/RESULTS.json."""
import json, os, re
V="/verif"
res=json.load(open(f"{V}/seeded/RESULTS.json"))
rows=[]
for n in sorted(os.listdir(f"{V}/seeded")):
    d=f"{V}/seeded/{n}"
    if not os.path.isdir(d): continue
    m=json.load(open(f"{d}/meta.json")) if os.path.exists(f"{d}/meta.json") else {}
    title=(m.get("title") or "").replace("|","/").strip()
    needs=(m.get("needs_to_manifest") or "").replace("|","/").replace("\n"," ").strip()
    if len(needs)>170: needs=needs[:167]+"..."
    if len(title)>150: title=title[:147]+"..."
    caught=[]
    for k,v in sorted(res.get(n,{}).items()):
        p=k.split(":")[0]
        if v["exit"]==1:
            sig=re.search(r"\[([^\]]+)\]\s*$", v.get("first","") )
            first=v.get("first","")
            s=re.findall(r"\[([a-z0-9:\-]+)\]", first)
            caught.append(f"{p} ({s[-1] if s else 'violation'})")
        elif v["exit"]==0:
            caught.append(f"~~{p}~~ (not by this check)")
    rows.append(f"| `{n}` | {m.get('property','')} | {title} | {needs} | {', '.join(caught) or 'not run'} |")
tab="| seed | breaks | change | needs in order to manifest | quick check(s) that report it (signature) |\n|---|---|---|---|---|\n"+"\n".join(rows)+"\n"
p=f"{V}/DESIGN.md"
s=open(p).read()
a="<!-- SEED-TABLE-BEGIN -->"; b="<!-- SEED-TABLE-END -->"
assert a in s and b in s
s=s[:s.index(a)+len(a)]+"\n"+tab+s[s.index(b):]
open(p,"w").write(s)
print(len(rows),"seeds")
