#!/bin/bash
# tools/isolated.sh <dir> <command...> : runs a command in a private mount namespace in which /repo and /verif are
# scratch copies (snapshot of the current working trees) kept under <dir>, so that a long sweep does not
# collide with work going on in the real /verif and /repo. Development aid only: no registered command uses it,
# and evidence committed to /verif never comes from it.
set -e
S=$1; shift
mkdir -p "$S"
rsync -a --delete --exclude "incremental" --exclude .build/miri --exclude .build/asan --exclude .build/tsan --exclude .build/release --exclude .build/memcrsd --exclude .git /verif/ "$S/verif/" || [ $? -eq 24 ]
rm -rf "$S/repo"; git clone -q /repo "$S/repo"
exec unshare -m bash -c "mount --bind $S/repo /repo && mount --bind $S/verif /verif && cd /verif && $*"
