#!/bin/bash
# runs every check's quick (or thorough) command, validates the evidence files
tier=${1:-quick}; cd /verif
L=${RUN_ALL_LOGS:-/tmp}; mkdir -p $L
PROPS=${RUN_ALL_PROPS:-C01 C02 C03 C04 C05 C06 C07 C08 C09 C10 C11 C12 C13 C14 C15 C16 C17 C18 C19 C20}
for p in $PROPS; do
  s=$(date +%s); rm -f evidence/$p.json
  timeout 7200 ./check $p $tier > $L/run_$p.log 2>&1; rc=$?
  e=$(( $(date +%s) - s ))
  v=$(grep -c '^VIOLATION' $L/run_$p.log); k=$(grep -c '^KNOWN-FINDING' $L/run_$p.log); i=$(grep -c '^INCONCLUSIVE' $L/run_$p.log)
  ok=$(python3-vt -c "
import json,jsonschema,sys
try:
    jsonschema.validate(json.load(open('/verif/evidence/$p.json')),json.load(open('/root/.vp/EVIDENCE.schema.json'))); print('evidence-ok')
except Exception as ex: print('EVIDENCE-BAD',str(ex)[:100])")
  echo "$p $tier rc=$rc ${e}s violations=$v known=$k inconclusive=$i $ok"
done
