use mcv::ev::Ctx;

#[cfg(not(miri))]
#[global_allocator]
static GLOBAL: mcv::alloc::Counting = mcv::alloc::Counting;

fn main() {
    let args: Vec<String> = std::env::args().collect();
    if args.len() < 2 {
        eprintln!("usage: mcv <engine> --prop Cxx [--tier quick|thorough] [--seed N] [--case N] ...");
        std::process::exit(2);
    }
    let engine = args[1].as_str();
    if engine == "serve" {
        std::process::exit(mcv::config::serve(&args[2..]));
    }
    let ctx = Ctx::from_args(&args[2..]);
    let code = match engine {
        "kv" => mcv::kv::run(&ctx),
        "quiet" => mcv::kv::run_c19(&ctx),
        "lin" => mcv::lin::run(&ctx),
        "evict" => mcv::evict::run_c14(&ctx),
        "acct" => mcv::evict::run_c15(&ctx),
        "backpressure" => mcv::l3::run_backpressure(&ctx),
        "bloat" => mcv::l3::run_bloat(&ctx),
        "slots" => mcv::l3b::run_c17(&ctx),
        "fault" => mcv::l3b::run_c18(&ctx),
        "stall" => mcv::l3b::run_stall(&ctx),
        "config" => mcv::config::run_c20(&ctx),
        "linsock" => mcv::linsock::run_linsock(&ctx),
        "timer" => mcv::linsock::run_timer(&ctx),
        "pipe" => mcv::l3::run_c12(&ctx),
        "flushorder" => mcv::l3::run_flush_order(&ctx),
        "appendlimit" => mcv::l3::run_append_limit(&ctx),
        "toolarge" => mcv::l3::run_c13(&ctx),
        "sockframe" => mcv::l3::run_sock_frames(&ctx),
        "frame" => mcv::frame::run_c09(&ctx),
        "hostile" => mcv::frame::run_c10(&ctx),
        _ => {
            eprintln!("unknown engine {}", engine);
            2
        }
    };
    std::process::exit(code);
}
