pub mod ev;
pub mod frame;
pub mod gate;
pub mod kv;
pub mod l1;
pub mod lin;
pub mod model;
pub mod wire;
