pub mod ev;
pub mod frame;
pub mod kv;
pub mod l1;
pub mod model;
pub mod wire;
