//! L3: in-process MemcacheTcpServer on loopback + a blocking client driver with
//! controlled segmentation. The server's hook events (conn.*, client.exit) are
//! collected per peer port so that the driver *knows* when the server has
//! consumed a chunk, instead of sleeping.

use crate::gate;
use crate::l1::{Stack, StoreKind};
use memcrs::memcache_server::memc_tcp::{MemcacheServerConfig, MemcacheTcpServer};
use socket2::{Domain, SockAddr, Socket, Type};
use std::collections::HashMap;
use std::io::{ErrorKind, Read, Write};
use std::net::{SocketAddr, TcpStream};
use std::sync::atomic::{AtomicU16, AtomicU64, Ordering};
use std::sync::{Arc, Condvar, Mutex, OnceLock};
use std::time::{Duration, Instant};

#[derive(Default, Clone, Debug)]
pub struct ConnObs {
    pub read_total: u64,
    pending_before: Option<u64>,
    /// the connection task is blocked in read_buf with nothing left to decode
    pub waiting: bool,
    /// (opcode, bytes buffered when the frame was returned)
    pub frames: Vec<(u8, u64)>,
    /// sizes of the reads of the frame loop
    pub reads: Vec<u64>,
    pub skips: Vec<u64>,
    pub exited: bool,
    /// serial number of the server-side connection this entry describes
    pub serial: u64,
    /// events of connections with a serial below this are not ours
    pub floor: u64,
    /// (event, value, microseconds since the process-wide epoch) of the first events, for diagnosis
    pub timeline: Vec<(&'static str, u64, u64)>,
}

pub fn now_us() -> u64 {
    static EPOCH: OnceLock<Instant> = OnceLock::new();
    EPOCH.get_or_init(Instant::now).elapsed().as_micros() as u64
}

pub struct ConnLog {
    m: Mutex<HashMap<u32, ConnObs>>,
    cv: Condvar,
    pub events: AtomicU64,
}

static LOG: OnceLock<Arc<ConnLog>> = OnceLock::new();

pub fn conn_log() -> Arc<ConnLog> {
    LOG.get_or_init(|| {
        let l = Arc::new(ConnLog { m: Mutex::new(HashMap::new()), cv: Condvar::new(), events: AtomicU64::new(0) });
        let l2 = l.clone();
        gate::install_hook();
        gate::set_global_observer(Some(Box::new(move |point, a, b| {
            // b = (connection serial << 32) | (server's local port << 16) | peer port
            let serial = b >> 32;
            let (port, val) = match point {
                "conn.decode" | "conn.read.before" | "conn.skip" => (b as u32, a),
                "client.exit" => (b as u32, 0),
                "conn.frame" => (0, 0),
                _ => return,
            };
            l2.events.fetch_add(1, Ordering::Relaxed);
            if point == "conn.frame" {
                // carries no port: attributed through the thread-local of the emitting task's last decode
                let port = LAST_PORT.with(|p| p.get());
                {
                    let mut m = l2.m.lock().unwrap();
                    let e = m.entry(port).or_default();
                    e.frames.push((a as u8, b));
                }
                l2.cv.notify_all();
                // injected delay: the connection task sleeps when it has just been handed a given frame
                let d = DELAYS.lock().unwrap().iter().find(|(k, o, _)| *k == port && *o == a as u8).map(|x| x.2);
                if let Some(ms) = d {
                    std::thread::sleep(Duration::from_millis(ms));
                }
                return;
            }
            let mut m = l2.m.lock().unwrap();
            let e = m.entry(port).or_default();
            // events of an older connection that used the same port pair are not ours; a newer
            // connection takes the entry over
            if serial < e.serial || serial < e.floor {
                return;
            }
            if serial > e.serial {
                let floor = e.floor;
                *e = ConnObs::default();
                e.serial = serial;
                e.floor = floor;
            }
            if e.timeline.len() < 24 {
                e.timeline.push((point, val, now_us()));
            }
            match point {
                "conn.decode" => {
                    LAST_PORT.with(|p| p.set(port));
                    if let Some(bf) = e.pending_before.take() {
                        let n = val.saturating_sub(bf);
                        e.read_total += n;
                        e.reads.push(n);
                    }
                    e.waiting = false;
                }
                "conn.read.before" => {
                    e.pending_before = Some(val);
                    e.waiting = true;
                }
                "conn.skip" => {
                    e.read_total += val;
                    e.skips.push(val);
                }
                _ => {
                    e.exited = true;
                    e.waiting = false;
                }
            }
            drop(m);
            l2.cv.notify_all();
        })));
        l
    })
    .clone()
}

/// (connection key, opcode, milliseconds): see `conn.frame` above
static DELAYS: Mutex<Vec<(u32, u8, u64)>> = Mutex::new(Vec::new());

pub fn inject_delay(key: u32, opcode: u8, ms: u64) {
    DELAYS.lock().unwrap().push((key, opcode, ms));
}

pub fn clear_delays(key: u32) {
    DELAYS.lock().unwrap().retain(|d| d.0 != key);
}

thread_local! {
    static LAST_PORT: std::cell::Cell<u32> = const { std::cell::Cell::new(0) };
}

impl ConnLog {
    pub fn get(&self, port: u32) -> ConnObs {
        self.m.lock().unwrap().get(&port).cloned().unwrap_or_default()
    }
    /// Called right after connecting with the serial watermark taken before the connect: whatever an
    /// earlier connection with the same port pair left behind is dropped, its late events are ignored
    /// from now on, and events of the new connection that arrived already are kept.
    pub fn adopt(&self, port: u32, floor: u64) {
        let mut m = self.m.lock().unwrap();
        let e = m.entry(port).or_default();
        if e.serial < floor {
            *e = ConnObs::default();
        }
        e.floor = floor;
    }
    pub fn forget(&self, port: u32) {
        self.m.lock().unwrap().remove(&port);
    }
    /// waits until `f` holds for the connection with this peer port
    pub fn wait(&self, port: u32, timeout: Duration, f: impl Fn(&ConnObs) -> bool) -> bool {
        let t0 = Instant::now();
        let mut m = self.m.lock().unwrap();
        loop {
            let ok = m.get(&port).map(|o| f(o)).unwrap_or(false);
            if ok {
                return true;
            }
            let left = timeout.checked_sub(t0.elapsed());
            match left {
                None => return false,
                Some(l) => {
                    let (g, _) = self.cv.wait_timeout(m, l.min(Duration::from_millis(20))).unwrap();
                    m = g;
                }
            }
        }
    }
}

#[derive(Clone, Copy, Debug)]
pub struct SrvCfg {
    pub conn_limit: u32,
    pub item_limit: u32,
    pub idle_s: u32,
    pub workers: Option<usize>,
    pub store: StoreKind,
    pub t0: u64,
}

impl Default for SrvCfg {
    fn default() -> Self {
        SrvCfg { conn_limit: 64, item_limit: 1 << 20, idle_s: 30, workers: None, store: StoreKind::Plain, t0: 100 }
    }
}

pub struct Server {
    pub port: u16,
    pub stack: Stack,
    pub handle: MemcacheTcpServer,
    stop: Option<tokio::sync::oneshot::Sender<()>>,
    thread: Option<std::thread::JoinHandle<()>>,
}

static NEXT_SRV_PORT: AtomicU16 = AtomicU16::new(0);
/// servers whose thread did not end within 4 s of the stop signal
pub static SERVERS_NOT_STOPPED: std::sync::atomic::AtomicU64 = std::sync::atomic::AtomicU64::new(0);

fn port_base() -> u16 {
    // per-process ranges so that checks can run side by side
    let pid = std::process::id() as u16;
    20000 + (pid % 11) * 1000
}

fn next_port(ctr: &AtomicU16, off: u16, span: u16) -> u16 {
    let n = ctr.fetch_add(1, Ordering::Relaxed);
    port_base() + off + (n % span)
}

impl Server {
    pub fn start(cfg: SrvCfg) -> Result<Server, String> {
        let _ = conn_log();
        let stack = Stack::new(cfg.store, cfg.t0);
        for _ in 0..200 {
            let port = next_port(&NEXT_SRV_PORT, 0, 300);
            // is somebody listening there already?
            if TcpStream::connect_timeout(&SocketAddr::from(([127, 0, 0, 1], port)), Duration::from_millis(50)).is_ok() {
                continue;
            }
            let sc = MemcacheServerConfig::new(cfg.idle_s, cfg.conn_limit, cfg.item_limit, 1024);
            let server = MemcacheTcpServer::new(sc, stack.top.clone());
            let handle = server.clone();
            let (tx, rx) = tokio::sync::oneshot::channel::<()>();
            let (rtx, rrx) = std::sync::mpsc::channel::<Result<(), String>>();
            let workers = cfg.workers;
            let th = std::thread::Builder::new().name(format!("mcv-srv-{}", port)).spawn(move || {
                let rt = match workers {
                    None => tokio::runtime::Builder::new_current_thread().enable_all().build(),
                    Some(n) => tokio::runtime::Builder::new_multi_thread().worker_threads(n).enable_all().build(),
                };
                let rt = match rt {
                    Ok(r) => r,
                    Err(e) => {
                        let _ = rtx.send(Err(e.to_string()));
                        return;
                    }
                };
                let mut server = server;
                rt.block_on(async move {
                    let addr = SocketAddr::from(([127, 0, 0, 1], port));
                    let _ = rtx.send(Ok(()));
                    tokio::select! {
                        r = server.run(addr) => { if let Err(e) = r { eprintln!("(server.run on port {} ended: {})", port, e); } }
                        _ = rx => {}
                    }
                });
                // a task that never yields would make a plain drop of the runtime wait for ever
                rt.shutdown_timeout(Duration::from_millis(500));
            });
            let th = match th {
                Ok(t) => t,
                Err(_) => continue,
            };
            match rrx.recv_timeout(Duration::from_secs(5)) {
                Ok(Ok(())) => {}
                _ => continue,
            }
            // wait until it accepts
            let t0 = Instant::now();
            let mut up = false;
            while t0.elapsed() < Duration::from_secs(3) {
                if let Ok(s) = TcpStream::connect_timeout(&SocketAddr::from(([127, 0, 0, 1], port)), Duration::from_millis(100)) {
                    drop(s);
                    up = true;
                    break;
                }
                std::thread::sleep(Duration::from_millis(2));
            }
            let mut srv = Server { port, stack: stack.clone(), handle, stop: Some(tx), thread: Some(th) };
            if up {
                // the probe connection took a slot for a moment: wait until it is returned
                #[cfg(memcrs_verif)]
                {
                    let t1 = Instant::now();
                    while srv.handle.verif_available_permits() != cfg.conn_limit as usize && t1.elapsed() < Duration::from_secs(3) {
                        std::thread::sleep(Duration::from_millis(1));
                    }
                }
                return Ok(srv);
            }
            srv.shutdown();
        }
        Err("no free port".into())
    }

    pub fn permits(&self) -> usize {
        #[cfg(memcrs_verif)]
        {
            self.handle.verif_available_permits()
        }
        #[cfg(not(memcrs_verif))]
        {
            usize::MAX
        }
    }

    pub fn shutdown(&mut self) {
        if let Some(tx) = self.stop.take() {
            let _ = tx.send(());
        }
        if let Some(t) = self.thread.take() {
            // bounded: a server whose runtime thread is pinned by a task that never yields cannot stop; the
            // thread is left behind (the process exits at the end of the run) and the fact is counted
            let t0 = Instant::now();
            while !t.is_finished() && t0.elapsed() < Duration::from_secs(4) {
                std::thread::sleep(Duration::from_millis(2));
            }
            if t.is_finished() {
                let _ = t.join();
            } else {
                SERVERS_NOT_STOPPED.fetch_add(1, Ordering::SeqCst);
            }
        }
    }
}

impl Drop for Server {
    fn drop(&mut self) {
        self.shutdown();
    }
}

#[derive(Debug, PartialEq, Clone, Copy)]
pub enum End {
    Eof,
    Reset,
    Timeout,
    Open,
}

pub struct Cli {
    pub s: TcpStream,
    /// (server port << 16) | local port: the key of this connection in the ConnLog
    pub port: u32,
    pub sent: u64,
    pub rx: Vec<u8>,
    pub end: End,
    pub unconfirmed_splits: u64,
    /// the server is not in this process (no hook events): never wait for them
    pub plain: bool,
}

impl Cli {
    pub fn connect(server_port: u16) -> Result<Cli, String> {
        for _ in 0..20 {
            let sock = Socket::new(Domain::IPV4, Type::STREAM, None).map_err(|e| e.to_string())?;
            // learn the local port before connecting and drop what an earlier connection with the
            // same (server port, client port) pair left in the log: the server cannot emit events for
            // this pair before the connect below
            // every connection the server constructs from now on gets a serial >= this watermark
            #[cfg(memcrs_verif)]
            let floor = memcrs::verif::conn_serial_watermark();
            #[cfg(not(memcrs_verif))]
            let floor = 0u64;
            match sock.connect_timeout(&SockAddr::from(SocketAddr::from(([127, 0, 0, 1], server_port))), Duration::from_secs(2)) {
                Ok(()) => {
                    let s: TcpStream = sock.into();
                    let _ = s.set_nodelay(true);
                    let lp = s.local_addr().map(|a| a.port()).unwrap_or(0);
                    let key = ((server_port as u32) << 16) | lp as u32;
                    conn_log().adopt(key, floor);
                    return Ok(Cli { s, port: key, sent: 0, rx: vec![], end: End::Open, unconfirmed_splits: 0, plain: false });
                }
                Err(_) => std::thread::sleep(Duration::from_millis(20)),
            }
        }
        Err("cannot connect".into())
    }

    /// non-blocking drain of whatever the server has written so far
    pub fn drain(&mut self) {
        if self.end != End::Open {
            return;
        }
        let nb = self.s.set_nonblocking(true);
        let mut buf = [0u8; 65536];
        loop {
            let _ = &nb;
            match self.s.read(&mut buf) {
                Ok(0) => {
                    self.end = End::Eof;
                    break;
                }
                Ok(n) => self.rx.extend_from_slice(&buf[..n]),
                Err(e) if e.kind() == ErrorKind::WouldBlock => break,
                Err(e) if e.kind() == ErrorKind::Interrupted => continue,
                Err(_) => {
                    self.end = End::Reset;
                    break;
                }
            }
        }
        let _ = self.s.set_nonblocking(false);
    }

    /// writes one chunk (one write call where the kernel allows) and waits until the
    /// server has taken all bytes sent so far out of its socket
    pub fn send_chunk(&mut self, bytes: &[u8]) -> bool {
        let _ = self.s.set_nonblocking(true);
        let mut off = 0;
        let t0 = Instant::now();
        while off < bytes.len() {
            match self.s.write(&bytes[off..]) {
                Ok(n) => off += n,
                Err(e) if e.kind() == ErrorKind::WouldBlock => {
                    let _ = self.s.set_nonblocking(false);
                    self.drain();
                    let _ = self.s.set_nonblocking(true);
                    std::thread::sleep(Duration::from_micros(200));
                    if t0.elapsed() > Duration::from_secs(20) {
                        break;
                    }
                }
                Err(_) => {
                    let _ = self.s.set_nonblocking(false);
                    self.sent += off as u64;
                    return false;
                }
            }
        }
        let _ = self.s.set_nonblocking(false);
        self.sent += off as u64;
        self.wait_consumed(Duration::from_secs(3))
    }

    /// connection to a server in another process
    pub fn connect_plain(server_port: u16) -> Result<Cli, String> {
        let mut c = Cli::connect(server_port)?;
        c.plain = true;
        Ok(c)
    }

    pub fn wait_consumed(&mut self, timeout: Duration) -> bool {
        if self.plain {
            return true;
        }
        let log = conn_log();
        let t0 = Instant::now();
        let sent = self.sent;
        loop {
            self.drain();
            if log.wait(self.port, Duration::from_millis(2), |o| o.read_total >= sent || o.exited) {
                return true;
            }
            if t0.elapsed() > timeout {
                self.unconfirmed_splits += 1;
                return false;
            }
        }
    }

    /// waits until the server task is idle in read (everything sent has been processed) or gone
    pub fn wait_quiescent(&mut self, timeout: Duration) -> bool {
        let log = conn_log();
        let t0 = Instant::now();
        let sent = self.sent;
        loop {
            self.drain();
            if log.wait(self.port, Duration::from_millis(2), |o| (o.read_total >= sent && o.waiting) || o.exited) {
                // responses were written before the task went back to read
                std::thread::sleep(Duration::from_micros(300));
                self.drain();
                return true;
            }
            if t0.elapsed() > timeout {
                return false;
            }
        }
    }

    /// reads until EOF / reset / `timeout` of silence
    pub fn read_to_end(&mut self, timeout: Duration) -> End {
        if self.end != End::Open {
            return self.end;
        }
        let _ = self.s.set_read_timeout(Some(timeout));
        let mut buf = [0u8; 65536];
        loop {
            match self.s.read(&mut buf) {
                Ok(0) => {
                    self.end = End::Eof;
                    return End::Eof;
                }
                Ok(n) => self.rx.extend_from_slice(&buf[..n]),
                Err(e) if e.kind() == ErrorKind::WouldBlock || e.kind() == ErrorKind::TimedOut => return End::Timeout,
                Err(e) if e.kind() == ErrorKind::Interrupted => continue,
                Err(_) => {
                    self.end = End::Reset;
                    return End::Reset;
                }
            }
        }
    }

    /// reads until at least `n` complete response frames are buffered or timeout
    pub fn read_frames(&mut self, n: usize, timeout: Duration) -> usize {
        let t0 = Instant::now();
        loop {
            let have = count_frames(&self.rx);
            if have >= n || self.end != End::Open {
                return have;
            }
            let left = match timeout.checked_sub(t0.elapsed()) {
                Some(l) => l,
                None => return have,
            };
            let _ = self.s.set_read_timeout(Some(left.min(Duration::from_millis(50)).max(Duration::from_millis(1))));
            let mut buf = [0u8; 65536];
            match self.s.read(&mut buf) {
                Ok(0) => self.end = End::Eof,
                Ok(k) => self.rx.extend_from_slice(&buf[..k]),
                Err(e) if matches!(e.kind(), ErrorKind::WouldBlock | ErrorKind::TimedOut | ErrorKind::Interrupted) => {}
                Err(_) => self.end = End::Reset,
            }
        }
    }

    pub fn half_close(&mut self) {
        let _ = self.s.shutdown(std::net::Shutdown::Write);
    }

    /// abortive close: RST
    pub fn reset(self) {
        let sock = Socket::from(self.s);
        let _ = sock.set_linger(Some(Duration::from_secs(0)));
        drop(sock);
    }

    pub fn server_exited(&self, timeout: Duration) -> bool {
        conn_log().wait(self.port, timeout, |o| o.exited)
    }
}

pub fn count_frames(buf: &[u8]) -> usize {
    let mut off = 0;
    let mut n = 0;
    while off + 24 <= buf.len() {
        let body = u32::from_be_bytes([buf[off + 8], buf[off + 9], buf[off + 10], buf[off + 11]]) as usize;
        if off + 24 + body > buf.len() {
            break;
        }
        off += 24 + body;
        n += 1;
    }
    n
}
