//! L1: the wire boundary in process.
//! bytes -> MemcacheBinaryCodec::decode -> BinaryHandler::handle_request ->
//! Encoder::encode -> bytes, on a harness-owned store and a virtual clock.

use bytes::BytesMut;
use memcrs::cache::cache::Cache;
use memcrs::memcache::random_policy::RandomPolicy;
use memcrs::memcache::store::MemcStore;
use memcrs::memcache_server::handler::BinaryHandler;
use memcrs::memory_store::store::MemoryStore;
use memcrs::protocol::binary_codec::{BinaryRequest, MemcacheBinaryCodec};
use memcrs::server::timer::Timer;
use std::sync::atomic::{AtomicU64, Ordering};
use std::sync::Arc;
use tokio_util::codec::{Decoder, Encoder};

pub struct VirtualTimer(pub AtomicU64);

impl VirtualTimer {
    pub fn new(t: u64) -> Arc<VirtualTimer> {
        Arc::new(VirtualTimer(AtomicU64::new(t)))
    }
    pub fn set(&self, t: u64) {
        self.0.store(t, Ordering::SeqCst)
    }
    pub fn now(&self) -> u64 {
        self.0.load(Ordering::SeqCst)
    }
    pub fn advance(&self, d: u64) -> u64 {
        self.0.fetch_add(d, Ordering::SeqCst) + d
    }
}

impl Timer for VirtualTimer {
    fn timestamp(&self) -> u64 {
        // the clock is read inside several windows of the store (between the
        // look-up and the insert of a set, at the start of the expiry test):
        // a gate point for threads that are bound to a controller
        crate::gate::pt("timer.read");
        self.0.load(Ordering::SeqCst)
    }
}

#[derive(Clone, Copy, Debug, PartialEq)]
pub enum StoreKind {
    Plain,
    /// random eviction with this memory limit
    Random(u64),
    /// random eviction with this memory limit, built the way the server builds it
    /// (`MemcacheStoreBuilder::from_config`); the harness then has no handle on the layers below
    Built(u64),
}

/// The store stack of one case; handles to each layer for the monitors.
#[derive(Clone)]
pub struct Stack {
    pub timer: Arc<VirtualTimer>,
    pub inner: Arc<MemoryStore>,
    pub policy: Option<Arc<RandomPolicy>>,
    pub top: Arc<dyn Cache + Send + Sync>,
    pub memc: Arc<MemcStore>,
}

impl Stack {
    pub fn new(kind: StoreKind, t0: u64) -> Stack {
        let timer = VirtualTimer::new(t0);
        let inner = Arc::new(MemoryStore::new(timer.clone()));
        let (policy, top): (Option<Arc<RandomPolicy>>, Arc<dyn Cache + Send + Sync>) = match kind {
            StoreKind::Plain => (None, inner.clone()),
            StoreKind::Random(l) => {
                let p = Arc::new(RandomPolicy::new(inner.clone(), l));
                (Some(p.clone()), p)
            }
            StoreKind::Built(l) => {
                let cfg = memcrs::memcache::builder::MemcacheStoreConfig::new(l, memcrs::memcache::eviction_policy::EvictionPolicy::Random);
                let t: Arc<dyn memcrs::server::timer::Timer + Send + Sync> = timer.clone();
                (None, memcrs::memcache::builder::MemcacheStoreBuilder::from_config(cfg, t))
            }
        };
        let memc = Arc::new(MemcStore::new(top.clone()));
        Stack { timer, inner, policy, top, memc }
    }

    /// A stack whose top layer is supplied by the caller (interposers).
    pub fn with_top(
        timer: Arc<VirtualTimer>,
        inner: Arc<MemoryStore>,
        policy: Option<Arc<RandomPolicy>>,
        top: Arc<dyn Cache + Send + Sync>,
    ) -> Stack {
        let memc = Arc::new(MemcStore::new(top.clone()));
        Stack { timer, inner, policy, top, memc }
    }

    /// (number of records, sum of Record::len()) of the inner store, read with
    /// the public remove_if and an always-false predicate.
    pub fn content_size(&self) -> (u64, u64) {
        let n = Arc::new(AtomicU64::new(0));
        let b = Arc::new(AtomicU64::new(0));
        let (n2, b2) = (n.clone(), b.clone());
        self.inner.remove_if(&mut move |_k, r| {
            n2.fetch_add(1, Ordering::Relaxed);
            b2.fetch_add(r.len() as u64, Ordering::Relaxed);
            false
        });
        (n.load(Ordering::Relaxed), b.load(Ordering::Relaxed))
    }
}

/// One decoded-and-handled request, as seen by the harness.
#[derive(Clone, Debug)]
pub struct Handled {
    pub opcode: u8,
    pub opaque: u32,
    /// bytes consumed from the stream when this request was emitted
    pub consumed_at_emit: usize,
    pub response: Option<Vec<u8>>,
    pub too_large: bool,
    pub body_len: u32,
}

#[derive(Debug, Default)]
pub struct FeedOut {
    pub handled: Vec<Handled>,
    /// concatenated response bytes
    pub bytes: Vec<u8>,
    /// decode error: the connection would be closed
    pub closed: Option<String>,
    pub quit: bool,
    /// the decoder kept emitting requests without consuming input
    pub runaway: bool,
}

/// A per-connection pipeline at L1: codec + handler + caller-owned buffer.
pub struct Conn {
    pub codec: MemcacheBinaryCodec,
    pub handler: BinaryHandler,
    pub buf: BytesMut,
    pub fed: usize,
    pub limit: u32,
    /// oversized body bytes still to be dropped from the stream (the harness
    /// plays the part of the connection layer here; only the hostile engine
    /// ever produces oversized frames at L1)
    pub skip: usize,
    pub closed: bool,
    pub max_capacity: usize,
    pub decode_calls: u64,
    /// most bytes the decoder left in the buffer when it asked for more input
    pub max_retained: usize,
}

impl Conn {
    pub fn new(memc: Arc<MemcStore>, limit: u32) -> Conn {
        Conn {
            codec: MemcacheBinaryCodec::new(limit),
            handler: BinaryHandler::new(memc),
            buf: BytesMut::with_capacity(4096),
            fed: 0,
            limit,
            skip: 0,
            closed: false,
            max_capacity: 0,
            decode_calls: 0,
            max_retained: 0,
        }
    }

    /// Feeds bytes and runs decode -> handle -> encode until the decoder wants
    /// more bytes, fails, or quit is seen.
    pub fn feed(&mut self, bytes: &[u8]) -> FeedOut {
        let mut out = FeedOut::default();
        if self.closed {
            return out;
        }
        let mut bytes = bytes;
        if self.skip > 0 {
            let n = self.skip.min(bytes.len());
            self.skip -= n;
            self.fed += n;
            bytes = &bytes[n..];
        }
        self.buf.extend_from_slice(bytes);
        self.fed += bytes.len();
        let max_requests = self.buf.len() / 24 + 2;
        loop {
            if out.handled.len() > max_requests {
                out.runaway = true;
                out.closed = Some("RUNAWAY: more requests emitted than the buffered bytes can hold".into());
                self.closed = true;
                return out;
            }
            self.decode_calls += 1;
            let r = self.codec.decode(&mut self.buf);
            self.max_capacity = self.max_capacity.max(self.buf.capacity());
            match r {
                Ok(Some(req)) => {
                    let (opcode, opaque, body_len) = {
                        let h = req.get_header();
                        // header fields are pub(crate): recover them from the Debug form
                        hdr_fields(&format!("{:?}", h))
                    };
                    let too_large = matches!(req, BinaryRequest::ItemTooLarge(_));
                    let quit = matches!(req, BinaryRequest::Quit(_) | BinaryRequest::QuitQuietly(_));
                    let consumed = self.fed - self.buf.len();
                    if too_large {
                        let n = (body_len as usize).min(self.buf.len());
                        let _ = self.buf.split_to(n);
                        self.skip = body_len as usize - n;
                    }
                    let resp = self.handler.handle_request(req);
                    let rbytes = resp.map(|m| {
                        let mut dst = BytesMut::new();
                        self.codec.encode(m, &mut dst).expect("encode");
                        dst.to_vec()
                    });
                    if let Some(b) = &rbytes {
                        out.bytes.extend_from_slice(b);
                    }
                    out.handled.push(Handled {
                        opcode,
                        opaque,
                        consumed_at_emit: consumed,
                        response: rbytes,
                        too_large,
                        body_len,
                    });
                    if quit {
                        out.quit = true;
                        self.closed = true;
                        return out;
                    }
                    if self.skip > 0 {
                        return out;
                    }
                }
                Ok(None) => {
                    self.max_retained = self.max_retained.max(self.buf.len());
                    return out;
                }
                Err(e) => {
                    out.closed = Some(e.to_string());
                    self.closed = true;
                    return out;
                }
            }
        }
    }
}

/// RequestHeader { magic: 128, opcode: 1, key_length: 3, extras_length: 8, data_type: 0, vbucket_id: 0, body_length: 14, opaque: 0, cas: 0 }
fn hdr_fields(s: &str) -> (u8, u32, u32) {
    fn field(s: &str, name: &str) -> u64 {
        let pat = format!("{}: ", name);
        match s.find(&pat) {
            Some(i) => {
                let rest = &s[i + pat.len()..];
                let end = rest.find(|c: char| !c.is_ascii_digit()).unwrap_or(rest.len());
                rest[..end].parse().unwrap_or(0)
            }
            None => 0,
        }
    }
    (field(s, "opcode") as u8, field(s, "opaque") as u32, field(s, "body_length") as u32)
}
