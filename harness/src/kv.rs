//! `kv` engine (L1): generated command histories checked against M-KV, with a
//! sweep of the whole key pool after commands. Serves C01, C02, C05, C06, C07,
//! C08, C11; the metamorphic quiet/loud engine for C19 reuses its generator.

use crate::ev::{fnv, Ctx, Evidence, Viol};
use crate::l1::{Conn, Stack, StoreKind};
use crate::model::{CasArg, Cmd, Model, Slot, Vis, NEVER};
use crate::wire::{self, op, st, ErrTexts, ReqView, Resp};
use rand::rngs::SmallRng;
use rand::{Rng, SeedableRng};
use serde_json::json;
use std::collections::{BTreeMap, HashSet};
use std::panic::{catch_unwind, AssertUnwindSafe};
use std::sync::atomic::{AtomicU64, Ordering};
use std::sync::Mutex;

#[derive(Clone, Debug)]
pub struct Profile {
    pub nkeys: usize,
    /// get, set, add, replace, concat, counter, delete, flush, misc, advance
    pub w: [u32; 10],
    pub p_cas: f64,
    pub p_quiet: f64,
    pub p_numeric: f64,
    pub p_boundary: f64,
    pub p_ttl: f64,
    pub len: (usize, usize),
}

pub fn profile_for(prop: &str) -> Profile {
    let base = Profile {
        nkeys: 6,
        w: [20, 25, 6, 6, 8, 6, 8, 2, 3, 12],
        p_cas: 0.15,
        p_quiet: 0.2,
        p_numeric: 0.15,
        p_boundary: 0.4,
        p_ttl: 0.4,
        len: (20, 120),
    };
    match prop {
        "C01" => Profile { nkeys: 8, w: [25, 30, 4, 4, 6, 4, 6, 1, 3, 10], len: (20, 200), ..base },
        "C02" => Profile { nkeys: 3, w: [12, 25, 6, 10, 12, 10, 10, 1, 1, 8], p_cas: 0.7, p_quiet: 0.1, p_numeric: 0.4, ..base },
        "C05" => Profile { nkeys: 5, w: [22, 18, 8, 8, 8, 8, 4, 6, 1, 30], p_ttl: 0.85, p_boundary: 0.7, p_numeric: 0.3, ..base },
        "C06" => Profile { nkeys: 5, w: [10, 12, 18, 18, 25, 2, 8, 3, 1, 10], p_cas: 0.2, ..base },
        "C07" => Profile { nkeys: 4, w: [12, 18, 3, 3, 6, 40, 5, 2, 1, 8], p_numeric: 0.85, p_cas: 0.15, ..base },
        "C08" => Profile { nkeys: 8, w: [18, 25, 4, 4, 4, 4, 18, 10, 1, 14], p_cas: 0.3, p_ttl: 0.3, ..base },
        "C11" => Profile { nkeys: 5, w: [20, 15, 8, 8, 8, 10, 8, 3, 12, 8], p_cas: 0.3, p_quiet: 0.3, p_numeric: 0.4, ..base },
        "C19" => Profile { nkeys: 5, w: [12, 18, 8, 8, 10, 10, 8, 4, 0, 10], p_cas: 0.2, p_quiet: 0.0, p_numeric: 0.3, len: (10, 60), ..base },
        _ => base,
    }
}

pub fn key_pool(rng: &mut SmallRng, n: usize) -> Vec<Vec<u8>> {
    let mut all: Vec<Vec<u8>> = vec![
        b"a".to_vec(),
        vec![b'k'; 250],
        b"key\0nul\xffx".to_vec(),
        b"prefix".to_vec(),
        b"prefixX".to_vec(),
        b"prefixY".to_vec(),
        b"5".to_vec(),
        b"val1".to_vec(),
        b" ".to_vec(),
        {
            let mut k = vec![b'k'; 250];
            k[249] = b'l';
            k
        },
        b"\x80\x01\x00\x00".to_vec(),
    ];
    // shuffle
    for i in (1..all.len()).rev() {
        let j = rng.gen_range(0..=i);
        all.swap(i, j);
    }
    all.truncate(n.min(all.len()));
    all
}

const NUMERIC: [&[u8]; 18] = [
    b"0",
    b"1",
    b"9",
    b"10",
    b"9223372036854775808",
    b"18446744073709551615",
    b"18446744073709551616",
    b"18446744073709551614",
    b"007",
    b"+5",
    b"-5",
    b" 5",
    b"5 ",
    b"",
    b"1e3",
    b"\xc3\x28",
    b"100000000000000000000",
    b"42",
];

fn gen_value(rng: &mut SmallRng, p: &Profile, keys: &[Vec<u8>], key: usize, limit: u32) -> Vec<u8> {
    if rng.gen_bool(p.p_numeric) {
        return NUMERIC[rng.gen_range(0..NUMERIC.len())].to_vec();
    }
    let max = (limit as usize).saturating_sub(8 + keys[key].len());
    match rng.gen_range(0..12) {
        0 => vec![],
        1 => vec![rng.gen()],
        2 => b"\0\xff\0\xffbin\x81\x80".to_vec(),
        3 => b"val1".to_vec(),
        4 => keys[rng.gen_range(0..keys.len())].clone(),
        5 => (0..max).map(|i| (i * 31 + 7) as u8).collect(),
        6 => (0..max.saturating_sub(1)).map(|i| (i * 13) as u8).collect(),
        7 => {
            let n = rng.gen_range(0..max.min(600) + 1);
            (0..n).map(|_| rng.gen()).collect()
        }
        _ => {
            let n = rng.gen_range(1..24);
            (0..n).map(|_| rng.gen_range(b'a'..=b'z')).collect()
        }
    }
}

fn gen_flags(rng: &mut SmallRng) -> u32 {
    match rng.gen_range(0..6) {
        0 => 0,
        1 => 1,
        2 => 0x8000_0000,
        3 => 0xffff_ffff,
        _ => rng.gen(),
    }
}

const TTLS: [u32; 8] = [1, 2, 3, 10, 100, 86_400, 2_592_000, 5];

fn gen_ttl(rng: &mut SmallRng, p: &Profile) -> u32 {
    if rng.gen_bool(p.p_ttl) {
        TTLS[rng.gen_range(0..TTLS.len())]
    } else {
        0
    }
}

fn gen_cas(rng: &mut SmallRng, p: &Profile, scale: f64) -> CasArg {
    if !rng.gen_bool((p.p_cas * scale).min(1.0)) {
        return CasArg::Zero;
    }
    match rng.gen_range(0..20) {
        0..=7 => CasArg::Current,
        8..=12 => CasArg::Stale(rng.gen_range(0..4)),
        13 | 14 => CasArg::Plus1,
        15 => CasArg::Minus1,
        16 => CasArg::Raw(1),
        17 => CasArg::Raw(u64::MAX),
        18 => CasArg::XorBit(rng.gen_range(0..64)),
        _ => {
            if rng.gen_bool(0.5) {
                CasArg::XorBit(rng.gen_range(0..64))
            } else {
                CasArg::Raw(rng.gen())
            }
        }
    }
}

fn gen_u64(rng: &mut SmallRng) -> u64 {
    match rng.gen_range(0..10) {
        0 => 0,
        1 | 2 => 1,
        3 => 1 << 63,
        4 => u64::MAX,
        5 => u64::MAX - 1,
        6 => rng.gen(),
        _ => rng.gen_range(0..1000),
    }
}

/// Generates the next command from the profile and the model's current state.
pub fn gen_cmd(rng: &mut SmallRng, p: &Profile, m: &Model, keys: &[Vec<u8>], limit: u32) -> Cmd {
    let total: u32 = p.w.iter().sum();
    let mut x = rng.gen_range(0..total);
    let mut kind = 0;
    for (i, w) in p.w.iter().enumerate() {
        if x < *w {
            kind = i;
            break;
        }
        x -= w;
    }
    let key = rng.gen_range(0..keys.len());
    let quiet = rng.gen_bool(p.p_quiet);
    match kind {
        0 => Cmd::Get { key, k: rng.gen_bool(0.3), quiet },
        1 => Cmd::Store {
            op: op::SET,
            key,
            value: gen_value(rng, p, keys, key, limit),
            flags: gen_flags(rng),
            ttl: gen_ttl(rng, p),
            cas: gen_cas(rng, p, 1.0),
            quiet,
        },
        2 => Cmd::Store {
            op: op::ADD,
            key,
            value: gen_value(rng, p, keys, key, limit),
            flags: gen_flags(rng),
            ttl: gen_ttl(rng, p),
            cas: gen_cas(rng, p, 0.15),
            quiet,
        },
        3 => Cmd::Store {
            op: op::REPLACE,
            key,
            value: gen_value(rng, p, keys, key, limit),
            flags: gen_flags(rng),
            ttl: gen_ttl(rng, p),
            cas: gen_cas(rng, p, 1.0),
            quiet,
        },
        4 => {
            let v = match rng.gen_range(0..6) {
                0 => vec![],
                1 => b"\0\xff".to_vec(),
                2 => b"7".to_vec(),
                _ => {
                    let n = rng.gen_range(1..40);
                    (0..n).map(|_| rng.gen()).collect()
                }
            };
            Cmd::Concat { append: rng.gen_bool(0.5), key, value: v, cas: gen_cas(rng, p, 1.0), quiet }
        }
        5 => {
            let exp = match rng.gen_range(0..12) {
                0 | 1 | 2 => 0xffff_ffff,
                3 => 1,
                4 => 100,
                // only 0xffffffff means "do not create": its neighbours and the sign-bit boundary are expirations
                5 => 0xffff_fffe,
                6 => 0x8000_0000,
                7 => 0x7fff_ffff,
                8 => rng.gen(),
                _ => 0,
            };
            Cmd::Counter {
                incr: rng.gen_bool(0.55),
                key,
                delta: gen_u64(rng),
                initial: gen_u64(rng),
                exp,
                cas: gen_cas(rng, p, 1.0),
                quiet,
            }
        }
        6 => Cmd::Delete { key, cas: gen_cas(rng, p, 1.0), quiet },
        7 => {
            let delay = match rng.gen_range(0..9) {
                0 | 1 => None,
                2 => Some(0),
                3 => Some(1),
                4 => Some(2),
                5 => Some(100),
                6 => Some(u32::MAX),
                _ => Some(rng.gen_range(1..20)),
            };
            Cmd::Flush { delay, quiet }
        }
        8 => match rng.gen_range(0..5) {
            0 => Cmd::Noop,
            1 => Cmd::Version,
            2 => Cmd::Stat,
            _ => Cmd::Unimpl(op::UNIMPLEMENTED[rng.gen_range(0..op::UNIMPLEMENTED.len())]),
        },
        _ => {
            // clock advance, preferably to a boundary of some item
            if rng.gen_bool(p.p_boundary) {
                let mut targets = vec![];
                for s in &m.slots {
                    if let Slot::Present(it) = s {
                        for b in [it.lo, it.hi] {
                            if b != NEVER {
                                for t in [b.saturating_sub(1), b, b + 1] {
                                    if t > m.now {
                                        targets.push(t);
                                    }
                                }
                            }
                        }
                    }
                }
                if !targets.is_empty() {
                    let t = targets[rng.gen_range(0..targets.len())];
                    return Cmd::Advance(t - m.now);
                }
            }
            Cmd::Advance(match rng.gen_range(0..10) {
                0..=4 => 1,
                5 => 2,
                6 => 9,
                7 => 100,
                8 => 86_400,
                _ => 2_592_001,
            })
        }
    }
}

#[derive(Clone, Copy, Debug, PartialEq)]
pub enum Sweep {
    Every,
    Some,
    Final,
}

pub struct CaseOut {
    pub viol: Option<Viol>,
    /// observations that refute other properties only: the case went on after them (the model re-learns the
    /// key), so that what the same defect does to *this* property is still seen
    pub foreign: Vec<Viol>,
    pub trace: Vec<String>,
    pub counters: BTreeMap<String, u64>,
    pub fingerprint: u64,
    pub nontrivial: bool,
    pub comparisons: u64,
    pub commands: u64,
}

fn blame(last: &Cmd) -> Option<&'static str> {
    match last {
        Cmd::Delete { .. } | Cmd::Flush { .. } => Some("C08"),
        Cmd::Store { op: o, .. } if *o != op::SET => Some("C06"),
        Cmd::Concat { .. } => Some("C06"),
        Cmd::Counter { .. } => Some("C07"),
        _ => None,
    }
}

/// Executes one command on the connection and checks it: C11 parser, then M-KV.
thread_local! {
    /// when set, every command is fed together with a trailing noop in one buffer: the decoder meets the
    /// command with its follower already buffered (what a pipelining client produces)
    pub static PIGGYBACK: std::cell::Cell<bool> = const { std::cell::Cell::new(false) };
}
const PIGGY_OPAQUE: u32 = 0x7711_7711;

pub fn exec(
    conn: &mut Conn,
    m: &mut Model,
    texts: &mut ErrTexts,
    keys: &[Vec<u8>],
    cmd: &Cmd,
    opaque: u32,
    trace: &mut Vec<String>,
) -> Result<(crate::model::Obs, Option<Resp>), Viol> {
    let cas = match (cmd.key(), cmd.cas_arg()) {
        (Some(k), Some(a)) => m.resolve_cas(k, a),
        _ => 0,
    };
    let frame = cmd.frame(keys, cas, opaque);
    let mut bytes = frame.encode();
    let piggy = PIGGYBACK.with(|p| p.get()) && !matches!(cmd, Cmd::Stat);
    if piggy {
        bytes.extend(wire::simple(op::NOOP, PIGGY_OPAQUE).encode());
    }
    let out = match catch_unwind(AssertUnwindSafe(|| conn.feed(&bytes))) {
        Ok(o) => o,
        Err(e) => {
            let msg = panic_text(&e);
            let mut tags = vec!["C10"];
            match cmd {
                Cmd::Counter { .. } => tags.push("C07"),
                Cmd::Store { .. } | Cmd::Concat { .. } | Cmd::Delete { .. } if cas != 0 => tags.push("C02"),
                _ => tags.push("C01"),
            }
            trace.push(format!("t={} {} cas={} -> PANIC {}", m.now, cmd.brief(), cas, msg));
            return Err(Viol::new(&tags, "panic", format!("{} (cas {}) panicked: {}", cmd.brief(), cas, msg)));
        }
    };
    if let Some(e) = &out.closed {
        trace.push(format!("t={} {} -> decode error {}", m.now, cmd.brief(), e));
        let mut tags = vec!["C09", "C10", "C12"];
        tags.push(match cmd {
            Cmd::Concat { .. } => "C06",
            Cmd::Store { op: o, .. } if *o != op::SET => "C06",
            Cmd::Counter { .. } => "C07",
            Cmd::Delete { .. } | Cmd::Flush { .. } => "C08",
            _ => "C01",
        });
        return Err(Viol::new(&tags, "valid-frame-rejected", format!("well-formed {} rejected by the decoder: {}", cmd.brief(), e)));
    }
    let want_frames = if piggy { 2 } else { 1 };
    if out.handled.len() != want_frames || conn.buf.len() != 0 {
        let mut tags = vec!["C09"];
        if piggy {
            // a command that swallows (or loses) the request buffered behind it
            tags.push("C12");
            tags.push(match cmd {
                Cmd::Concat { .. } => "C06",
                Cmd::Store { op: o, .. } if *o != op::SET => "C06",
                Cmd::Counter { .. } => "C07",
                Cmd::Delete { .. } | Cmd::Flush { .. } => "C08",
                _ => "C01",
            });
        }
        return Err(Viol::new(
            &tags,
            "frame-count",
            format!("{} frame(s) of {} bytes ({}{}) produced {} requests, {} bytes left", want_frames, bytes.len(), cmd.brief(), if piggy { " + noop in the same buffer" } else { "" }, out.handled.len(), conn.buf.len()),
        ));
    }
    let mut resps = wire::parse_all(&out.bytes).map_err(|e| Viol::new(&["C11"], "resp-grammar", format!("{}: {}", cmd.brief(), e)))?;
    if piggy {
        match resps.last() {
            Some(r) if r.opaque == PIGGY_OPAQUE && r.opcode == op::NOOP && r.status == st::OK => {
                resps.pop();
            }
            other => {
                return Err(Viol::new(&["C12", "C11"], "follower-unanswered", format!("the noop buffered behind {} was not answered last (last response: {:?})", cmd.brief(), other.map(|r| r.brief()))));
            }
        }
    }
    let is_stat = matches!(cmd, Cmd::Stat);
    if resps.len() > 1 && !is_stat {
        return Err(Viol::new(&["C12", "C11"], "multi-response", format!("{} produced {} responses", cmd.brief(), resps.len())));
    }
    let rq = ReqView::of(&frame);
    for r in &resps {
        wire::check_resp(&rq, r, texts).map_err(|e| Viol::new(&["C11"], "resp-shape", format!("{}: {}", cmd.brief(), e)))?;
    }
    let resp = resps.into_iter().next();
    trace.push(format!(
        "t={} {} cas={} [{}] -> {}",
        m.now,
        cmd.brief(),
        cas,
        cmd.key().map(|k| m.state_name(k)).unwrap_or("-"),
        resp.as_ref().map(|r| r.brief()).unwrap_or_else(|| "(silent)".into())
    ));
    let obs = m.apply(cmd, cas, resp.as_ref())?;
    Ok((obs, resp))
}

pub fn panic_text(e: &Box<dyn std::any::Any + Send>) -> String {
    if let Some(s) = e.downcast_ref::<&str>() {
        s.to_string()
    } else if let Some(s) = e.downcast_ref::<String>() {
        s.clone()
    } else {
        "panic".into()
    }
}

pub fn sweep(
    conn: &mut Conn,
    m: &mut Model,
    texts: &mut ErrTexts,
    keys: &[Vec<u8>],
    last: Option<&Cmd>,
    trace: &mut Vec<String>,
) -> Result<Vec<Option<Resp>>, Viol> {
    let mut out = Vec::with_capacity(keys.len());
    for k in 0..keys.len() {
        let g = Cmd::Get { key: k, k: false, quiet: false };
        match exec(conn, m, texts, keys, &g, 0x5eed_0000 + k as u32, trace) {
            Ok((_, r)) => out.push(r.filter(|r| r.status == st::OK)),
            Err(mut v) => {
                if let Some(l) = last {
                    if l.key() != Some(k) && !v.props.contains(&"C01") && !matches!(l, Cmd::Flush { .. } | Cmd::Advance(_)) {
                        v.props.push("C01"); // key isolation
                    }
                    if let Some(b) = blame(l) {
                        if !v.props.contains(&b) {
                            v.props.push(b);
                        }
                    }
                    v.msg = format!("sweep of k{} after `{}`: {}", k, l.brief(), v.msg);
                }
                return Err(v);
            }
        }
    }
    Ok(out)
}

fn target_hit(prop: &str, cmd: &Cmd, cas: bool, state: &str, m: &Model) -> bool {
    match prop {
        "C01" => matches!(cmd, Cmd::Get { .. }) && state == "live",
        "C02" => cas && cmd.is_mutation() && (state == "live" || state == "limbo"),
        "C05" => {
            cmd.key().is_some() && {
                match &m.slots[cmd.key().unwrap()] {
                    Slot::Present(it) => {
                        it.vis(m.now) != Vis::Live || (it.lo != NEVER && m.now + 1 >= it.lo)
                    }
                    Slot::Absent(crate::model::Why::Expired) => true,
                    _ => false,
                }
            }
        }
        "C06" => matches!(cmd, Cmd::Store { op: op::ADD | op::REPLACE, .. } | Cmd::Concat { .. }),
        "C07" => matches!(cmd, Cmd::Counter { .. }),
        "C08" => {
            matches!(cmd, Cmd::Delete { .. } | Cmd::Flush { .. })
                && m.slots.iter().filter(|s| matches!(s, Slot::Present(_))).count() >= 2
        }
        _ => true,
    }
}

static INFLIGHT_TRACES: Mutex<BTreeMap<i32, Vec<String>>> = Mutex::new(BTreeMap::new());

/// what the calling thread is about to execute, for the hang watchdog (the thread cannot tell afterwards)
fn note_inflight(trace: &[String], cmd: &Cmd) {
    let mut t: Vec<String> = trace.iter().rev().take(12).rev().cloned().collect();
    t.push(format!("IN FLIGHT: {}", cmd.brief()));
    INFLIGHT_TRACES.lock().unwrap().insert(crate::gate::gettid(), t);
}

fn run_case_trace_prefix(_ctx: &Ctx, tid: i32) -> Vec<String> {
    INFLIGHT_TRACES.lock().unwrap().get(&tid).cloned().unwrap_or_default()
}

pub fn run_case(ctx: &Ctx, prof: &Profile, case: u64, verbose: bool) -> CaseOut {
    let seed = ctx.case_seed("kv", case);
    let mut rng = SmallRng::seed_from_u64(seed);
    let limit: u32 = [1024, 4096, 4096, 65536][rng.gen_range(0..4)];
    // (a tenth of the cases on a store built like the server's, with limits around the 32-bit boundary, far out of reach)
    let kind = match rng.gen_range(0..10) {
        0 => StoreKind::Built([1u64 << 32, 1 << 33, (1 << 32) + (1 << 20), 3 << 32][rng.gen_range(0..4)]),
        1..=4 => StoreKind::Random(1 << 40),
        _ => StoreKind::Plain,
    };
    let t0: u64 = [0, 1, 7, 1000, 1_000_000][rng.gen_range(0..5)];
    let sweep_mode = [Sweep::Every, Sweep::Every, Sweep::Some, Sweep::Final][rng.gen_range(0..4)];
    let keys = key_pool(&mut rng, prof.nkeys);
    let stack = Stack::new(kind, t0);
    let mut conn = Conn::new(stack.memc.clone(), limit);
    let mut m = Model::new(keys.len(), t0);
    let mut texts = ErrTexts::default();
    // now and then the keys under test live in a store that holds thousands of other items: whole-store
    // operations (flush, sweeps) then take a different amount of time, nothing else may change
    let crowd = if !cfg!(miri) && rng.gen_ratio(1, 40) { rng.gen_range(4200..7000usize) } else { 0 };
    if crowd > 0 {
        let mut buf = vec![];
        for i in 0..crowd {
            wire::store(op::SETQ, format!("crowd-{}", i).as_bytes(), b"c", 0, 0, i as u32, 0).encode_into(&mut buf);
        }
        let _ = conn.feed(&buf);
    }
    let len = if cfg!(miri) { 25 } else { rng.gen_range(prof.len.0..=prof.len.1) };
    let mut out = CaseOut {
        viol: None,
        foreign: vec![],
        trace: vec![format!("case {} seed {:#x} limit {} store {:?} t0 {} sweep {:?} keys {:?} other items in the store {}", case, seed, limit, kind, t0, sweep_mode, keys.iter().map(|k| wire::short(k)).collect::<Vec<_>>(), crowd)],
        counters: BTreeMap::new(),
        fingerprint: 0,
        nontrivial: false,
        comparisons: 0,
        commands: 0,
    };
    if crowd > 0 {
        out.counters.insert("cases_in_a_store_with_thousands_of_other_items".into(), 1);
    }
    let mut fp: Vec<u8> = vec![];
    let mut mutations = 0u64;
    let mut targets = 0u64;
    let mut states: HashSet<(u8, &'static str)> = HashSet::new();
    // after a clock advance: a command aimed at an item that has expired since and that nobody has touched
    // (the sweep is skipped once), with every CAS argument: the states "expired, collected" and "expired, still
    // in the map" must be indistinguishable for get/add/replace/append/prepend/incr/decr
    PIGGYBACK.with(|p| p.set(!cfg!(miri) && rng.gen_ratio(1, 4)));
    if PIGGYBACK.with(|p| p.get()) {
        out.counters.insert("cases_with_a_request_buffered_behind_every_command".into(), 1);
    }
    let mut probe_uncollected = false;
    let burst_at = if rng.gen_ratio(1, 20) { rng.gen_range(0..len) } else { usize::MAX };
    let mut burst_read_pending = false;
    for step in 0..len {
        let mut cmd = gen_cmd(&mut rng, prof, &m, &keys, limit);
        if probe_uncollected {
            probe_uncollected = false;
            let expired: Vec<usize> = (0..keys.len()).filter(|k| matches!(&m.slots[*k], Slot::Present(it) if it.vis(m.now) == Vis::Expired)).collect();
            if !expired.is_empty() {
                let key = expired[rng.gen_range(0..expired.len())];
                let cas = match rng.gen_range(0..6) {
                    0 | 1 => CasArg::Zero,
                    2 => CasArg::Current,
                    3 => CasArg::Raw(rng.gen_range(1..5)),
                    4 => CasArg::Stale(0),
                    _ => CasArg::Raw(rng.gen()),
                };
                let quiet = rng.gen_bool(prof.p_quiet);
                cmd = match rng.gen_range(0..7) {
                    0 | 1 => Cmd::Store { op: op::ADD, key, value: b"after-expiry".to_vec(), flags: rng.gen(), ttl: 0, cas, quiet },
                    2 => Cmd::Store { op: op::REPLACE, key, value: b"r".to_vec(), flags: 1, ttl: 0, cas, quiet },
                    3 => Cmd::Concat { append: rng.gen_bool(0.5), key, value: b"x".to_vec(), cas, quiet },
                    4 => Cmd::Counter { incr: rng.gen_bool(0.5), key, delta: 1, initial: 7, exp: if rng.gen_bool(0.5) { 0 } else { 0xffff_ffff }, cas, quiet },
                    5 => Cmd::Store { op: op::SET, key, value: b"s".to_vec(), flags: 2, ttl: 0, cas, quiet },
                    _ => Cmd::Delete { key, cas, quiet },
                };
                *out.counters.entry("probes_of_an_expired_uncollected_item".into()).or_insert(0) += 1;
            }
        }
        // a burst of unrelated stores in the middle of some cases: whatever a store does every so-many writes
        // (housekeeping, sweeps, counters wrapping) must leave the keys under test alone
        if !cfg!(miri) && step == burst_at {
            let mut buf = vec![];
            for i in 0..1200u32 {
                wire::store(op::SETQ, format!("burst-{}", i % 80).as_bytes(), b"b", 0, if i % 2 == 0 { 1 } else { 0 }, i, 0).encode_into(&mut buf);
            }
            let _ = conn.feed(&buf);
            burst_read_pending = true;
            *out.counters.entry("cases_with_a_burst_of_1200_unrelated_stores".into()).or_insert(0) += 1;
        }
        if let Cmd::Advance(d) = cmd {
            let t = stack.timer.advance(d);
            m.now = t;
            out.trace.push(format!("advance {} -> t={}", d, t));
            if burst_read_pending {
                // the burst's short-lived items have expired: reading forty expired keys (twice) collects them;
                // collecting them must not touch anything else
                burst_read_pending = false;
                let mut buf = vec![];
                for rep in 0..2u32 {
                    for i in 0..80u32 {
                        wire::get(op::GETQ, format!("burst-{}", i).as_bytes(), rep * 100 + i).encode_into(&mut buf);
                    }
                }
                let _ = conn.feed(&buf);
                out.trace.push("(80 burst keys read, the expired half collected)".into());
            }
            fp.push(0xfe);
            *out.counters.entry("advance".into()).or_insert(0) += 1;
        } else {
            let has_cas = !matches!(cmd.cas_arg(), None | Some(CasArg::Zero));
            let state = cmd.key().map(|k| m.state_name(k)).unwrap_or("-");
            if target_hit(&ctx.prop, &cmd, has_cas, state, &m) {
                targets += 1;
                states.insert((cmd.opcode(), state));
            }
            note_inflight(&out.trace, &cmd);
            match exec(&mut conn, &mut m, &mut texts, &keys, &cmd, step as u32 ^ 0xa5a5_0000, &mut out.trace) {
                Ok((obs, _)) => {
                    out.commands += 1;
                    if cmd.is_mutation() && obs.status == st::OK {
                        mutations += 1;
                    }
                    let k = format!("{}|{}|{:#x}{}", op::name(cmd.opcode()), obs.state, obs.status, if obs.silent { "|silent" } else { "" });
                    *out.counters.entry(k).or_insert(0) += 1;
                    fp.extend_from_slice(&[cmd.opcode(), cmd.key().unwrap_or(99) as u8, obs.state.len() as u8, obs.status as u8]);
                }
                Err(v) => {
                    let fatal = matches!(v.sig.as_str(), "panic" | "valid-frame-rejected" | "frame-count" | "follower-unanswered" | "resp-grammar");
                    if v.hits(&ctx.prop) || fatal || out.foreign.len() >= 3 {
                        out.viol = Some(v);
                        break;
                    }
                    out.foreign.push(v);
                    for sl in m.slots.iter_mut() {
                        *sl = Slot::Unknown;
                    }
                }
            }
        }
        if matches!(cmd, Cmd::Advance(_)) && rng.gen_bool(0.4) {
            probe_uncollected = true;
            continue;
        }
        let do_sweep = match sweep_mode {
            Sweep::Every => true,
            Sweep::Some => rng.gen_bool(0.3),
            Sweep::Final => step + 1 == len,
        };
        if do_sweep {
            let mut tr = vec![];
            let r = sweep(&mut conn, &mut m, &mut texts, &keys, Some(&cmd), &mut tr);
            *out.counters.entry("sweep-gets".into()).or_insert(0) += keys.len() as u64;
            if let Err(v) = r {
                out.trace.extend(tr);
                if v.hits(&ctx.prop) || out.foreign.len() >= 3 || v.sig == "resp-grammar" {
                    out.viol = Some(v);
                    break;
                }
                out.foreign.push(v);
                for sl in m.slots.iter_mut() {
                    *sl = Slot::Unknown;
                }
                continue;
            }
            if verbose {
                out.trace.extend(tr);
            }
        }
    }
    PIGGYBACK.with(|p| p.set(false));
    out.comparisons = m.comparisons;
    out.fingerprint = fnv(&fp);
    let need_states = matches!(ctx.prop.as_str(), "C06" | "C07");
    out.nontrivial = mutations >= 1 && targets >= 1 && (!need_states || states.iter().map(|s| s.1).collect::<HashSet<_>>().len() >= 2);
    out
}

static PANICS: Mutex<Vec<String>> = Mutex::new(Vec::new());

pub fn install_quiet_panic_hook() {
    static SHOWN: AtomicU64 = AtomicU64::new(0);
    std::panic::set_hook(Box::new(|info| {
        if SHOWN.fetch_add(1, Ordering::Relaxed) < 3 {
            eprintln!("(panic in code under test: {})", info);
        }
        // panics of server tasks (tokio catches them) are only visible here
        let on_server_thread = std::thread::current().name().map(|n| n.starts_with("tokio") || n.starts_with("mcv-srv")).unwrap_or(false);
        if on_server_thread {
            if let Ok(mut p) = PANICS.lock() {
                if p.len() < 100 {
                    p.push(format!("{}", info));
                }
            }
        }
    }));
}

/// panics that happened on server threads since the last call
pub fn take_server_panics() -> Vec<String> {
    PANICS.lock().map(|mut p| std::mem::take(&mut *p)).unwrap_or_default()
}

pub const RULE: &str = "a case is one generated command history (with clock script, key pool, store stack, sweep mode) run at L1 against M-KV; non-trivial when it contains >=1 successful mutation and the property's target situation occurred (C01: a get met a live item; C02: a CAS mutation met an existing item; C05: a command met an item within 1 s of / past its expiry; C06/C07: the target opcodes met >=2 different key states; C08: delete/flush with >=2 items present; C11: always); distinct by the hash of its (opcode, key, key-state, status) sequence";

pub fn run(ctx: &Ctx) -> i32 {
    install_quiet_panic_hook();
    let prof = profile_for(&ctx.prop);
    let mut ev = Evidence::new(ctx, "exploration", RULE);
    ev.assumptions = vec![
        "the harness' own wire encoder / strict response parser and the M-KV model (leniency rules L-a..L-i of DESIGN.md 4.2)".into(),
        "L1 boundary: decode -> handle_request -> encode on a harness-owned store with a virtual clock".into(),
    ];
    if let Some(c) = ctx.only_case {
        let o = run_case(ctx, &prof, c, true);
        for l in &o.trace {
            println!("{}", l);
        }
        ev.evaluations = 1;
        ev.nontrivial.insert(o.fingerprint);
        ev.nontrivial.insert(!o.fingerprint);
        if let Some(v) = o.viol {
            println!("=> {:?}", v);
            ev.violation(v, json!({"engine":"kv","case":c,"trace":o.trace}));
        }
        return ev.finish();
    }
    let ncases = if cfg!(miri) { ctx.extra.get("miri-cases").and_then(|s| s.parse().ok()).unwrap_or(4) } else { ctx.n(20000, 60000) };
    let next = AtomicU64::new(0);
    let shared = Mutex::new(ev);
    let deadline = if ctx.budget_s > 0 { Some(std::time::Instant::now() + std::time::Duration::from_secs(ctx.budget_s)) } else { None };
    // per worker: (case in flight, its start, thread id, cases finished): a command that never returns would
    // otherwise hang the check; a hang is a verdict (C10 / C16), not a harness problem
    let inflight: Vec<Mutex<Option<(u64, std::time::Instant, i32)>>> = (0..ctx.workers).map(|_| Mutex::new(None)).collect();
    let finished = AtomicU64::new(0);
    let exited = AtomicU64::new(0);
    std::thread::scope(|s| {
        {
            let (inflight, finished, exited, shared) = (&inflight, &finished, &exited, &shared);
            s.spawn(move || {
                let horizon = std::time::Duration::from_secs(if cfg!(miri) { 3600 } else { 30 });
                loop {
                    std::thread::sleep(std::time::Duration::from_millis(500));
                    if exited.load(Ordering::SeqCst) as usize == ctx.workers {
                        return;
                    }
                    for slot in inflight.iter() {
                        let cur = *slot.lock().unwrap();
                        if let Some((case, since, tid)) = cur {
                            if since.elapsed() < horizon {
                                continue;
                            }
                            let still = |slot: &Mutex<Option<(u64, std::time::Instant, i32)>>| slot.lock().unwrap().map(|x| x.0) == Some(case);
                            let stall = crate::gate::classify_stall(&[tid], &|| if still(slot) { 0 } else { 1 }, 20);
                            let what = match stall {
                                crate::gate::Stall::Slow => continue,
                                crate::gate::Stall::Deadlock(m) => format!("deadlock: {}", m),
                                crate::gate::Stall::Livelock(m) => format!("livelock: {}", m),
                            };
                            let _ = finished;
                            let trace = run_case_trace_prefix(ctx, tid);
                            let mut e = shared.lock().unwrap();
                            e.violation(
                                Viol::new(&["C10", "C16"], "command-never-returns", format!("case {}: a command did not return within {} s on a single connection ({})", case, horizon.as_secs(), what)),
                                json!({"engine":"kv","case":case,"replay_cmd":format!("/verif/check {} replay --case {}", ctx.prop, case),"commands_of_the_case":trace}),
                            );
                            let ev = std::mem::replace(&mut *e, Evidence::new(ctx, "exploration", RULE));
                            std::process::exit(ev.finish());
                        }
                    }
                }
            });
        }
        for w in 0..ctx.workers {
            let (inflight, finished, exited) = (&inflight, &finished, &exited);
            let (next, shared, prof) = (&next, &shared, &prof);
            s.spawn(move || {
                let tid = crate::gate::gettid();
                let mut local: BTreeMap<String, u64> = BTreeMap::new();
                let mut fps: Vec<u64> = vec![];
                let mut n = 0u64;
                let mut cmds = 0u64;
                let mut comps = 0u64;
                let mut sample = None;
                loop {
                    let c = next.fetch_add(1, Ordering::Relaxed);
                    let over = match deadline {
                        Some(d) => std::time::Instant::now() > d && c >= ncases,
                        None => c >= ncases,
                    };
                    if over {
                        break;
                    }
                    *inflight[w].lock().unwrap() = Some((c, std::time::Instant::now(), tid));
                    let o = run_case(ctx, prof, c, false);
                    *inflight[w].lock().unwrap() = None;
                    finished.fetch_add(1, Ordering::Relaxed);
                    n += 1;
                    cmds += o.commands;
                    comps += o.comparisons;
                    for (k, v) in &o.counters {
                        *local.entry(k.clone()).or_insert(0) += v;
                    }
                    if o.nontrivial {
                        fps.push(o.fingerprint);
                        if sample.is_none() {
                            sample = Some(json!({"case": c, "trace": o.trace.iter().take(40).collect::<Vec<_>>()}));
                        }
                    }
                    if !o.foreign.is_empty() {
                        let mut e = shared.lock().unwrap();
                        for v in o.foreign.iter().cloned() {
                            e.violation(v, json!({"engine":"kv","case":c,"replay_cmd":format!("/verif/check {} replay --case {}", ctx.prop, c)}));
                        }
                    }
                    if let Some(v) = o.viol {
                        let mut e = shared.lock().unwrap();
                        e.violation(v, json!({"engine":"kv","case":c,"replay_cmd":format!("/verif/check {} replay --case {}", ctx.prop, c),"trace":o.trace}));
                    }
                }
                let mut e = shared.lock().unwrap();
                e.evaluations += n;
                e.count("commands", cmds);
                e.count("oracle_comparisons", comps);
                e.merge_counters(&local);
                for f in fps {
                    e.nontrivial.insert(f);
                }
                if let Some(s) = sample {
                    e.sample(s);
                }
                drop(e);
                exited.fetch_add(1, Ordering::SeqCst);
            });
        }
    });
    let mut ev = shared.into_inner().unwrap();
    let comps = ev.counters.get("oracle_comparisons").copied().unwrap_or(0);
    if comps == 0 {
        ev.inconclusive.push("no oracle comparison was made".into());
    }
    ev.finish()
}

// ---------------------------------------------------------------------------
// C19: quiet variants differ only in what is sent back (metamorphic)

#[derive(Clone, Debug, PartialEq)]
struct SweepRow {
    hit: bool,
    value: Vec<u8>,
    flags: u32,
    cas_changed: bool,
}

struct VariantOut {
    sweeps: Vec<Vec<SweepRow>>,
    errors: Vec<Option<(u16, Vec<u8>)>>,
    hits: Vec<Option<(Vec<u8>, Vec<u8>)>>,
    viol: Option<Viol>,
    trace: Vec<String>,
}

/// Variant runs are self-contained: no reference model, CAS arguments are resolved from what the
/// run's own sweeps observed (the same in every variant as long as the effects are the same).
fn run_variant(prog: &[Cmd], keys: &[Vec<u8>], limit: u32, kind: StoreKind, t0: u64) -> VariantOut {
    let stack = Stack::new(kind, t0);
    let mut conn = Conn::new(stack.memc.clone(), limit);
    let mut texts = ErrTexts::default();
    let mut out = VariantOut { sweeps: vec![], errors: vec![], hits: vec![], viol: None, trace: vec![] };
    let mut prev: Vec<u64> = vec![0; keys.len()];
    let mut seen: Vec<Vec<u64>> = vec![vec![]; keys.len()];
    for (i, cmd) in prog.iter().enumerate() {
        if let Cmd::Advance(d) = cmd {
            stack.timer.advance(*d);
            out.errors.push(None);
            out.hits.push(None);
        } else {
            let cas = match (cmd.key(), cmd.cas_arg()) {
                (Some(k), Some(a)) => match a {
                    CasArg::Zero => 0,
                    CasArg::Raw(x) => *x,
                    CasArg::Current => {
                        if prev[k] != 0 {
                            prev[k]
                        } else {
                            7
                        }
                    }
                    CasArg::Plus1 => prev[k].wrapping_add(1).max(1),
                    CasArg::Minus1 => prev[k].wrapping_sub(1).max(1),
                    CasArg::XorBit(b) => (prev[k] ^ (1u64 << (*b % 64))).max(1),
                    CasArg::Stale(n) => {
                        let old: Vec<u64> = seen[k].iter().copied().filter(|t| *t != prev[k]).collect();
                        if old.is_empty() {
                            0xdead
                        } else {
                            old[old.len() - 1 - (n % old.len())]
                        }
                    }
                },
                _ => 0,
            };
            let frame = cmd.frame(keys, cas, i as u32);
            let fo = match catch_unwind(AssertUnwindSafe(|| conn.feed(&frame.encode()))) {
                Ok(o) => o,
                Err(e) => {
                    out.viol = Some(Viol::new(&["C10", "C19"], "panic", format!("{} panicked: {}", cmd.brief(), panic_text(&e))));
                    return out;
                }
            };
            let rs = match wire::parse_all(&fo.bytes) {
                Ok(r) => r,
                Err(e) => {
                    out.viol = Some(Viol::new(&["C11", "C19"], "resp-grammar", format!("{}: {}", cmd.brief(), e)));
                    return out;
                }
            };
            let r = rs.into_iter().next();
            out.trace.push(format!("{} cas={} -> {}", cmd.brief(), cas, r.as_ref().map(|r| r.brief()).unwrap_or_else(|| "(silent)".into())));
            if let Some(r) = &r {
                if let Err(e) = wire::check_resp(&ReqView::of(&frame), r, &mut texts) {
                    out.viol = Some(Viol::new(&["C11", "C19"], "resp-shape", format!("{}: {}", cmd.brief(), e)));
                    return out;
                }
            }
            // response presence rules of the quiet variants
            let is_get = matches!(cmd, Cmd::Get { .. });
            let presence = match (&r, cmd.quiet()) {
                (None, false) => Some("a loud command got no response"),
                (Some(r), true) if !is_get && r.status == st::OK => Some("a quiet mutation answered on success"),
                (Some(r), true) if is_get && r.status == st::NOT_FOUND => Some("a quiet get answered on a miss"),
                _ => None,
            };
            if let Some(what) = presence {
                out.viol = Some(Viol::new(&["C19", "C12"], "quiet-presence", format!("{}: {}", cmd.brief(), what)));
                return out;
            }
            out.errors.push(r.as_ref().filter(|r| r.status != st::OK).map(|r| (r.status, r.value.clone())));
            out.hits.push(r.as_ref().filter(|r| r.status == st::OK && is_get).map(|r| (r.extras.clone(), r.value.clone())));
        }
        // sweep with loud gets
        let mut row = Vec::with_capacity(keys.len());
        for (k, key) in keys.iter().enumerate() {
            let fo = conn.feed(&wire::get(op::GET, key, 0x5eed).encode());
            let r = wire::parse_all(&fo.bytes).ok().and_then(|v| v.into_iter().next()).filter(|r| r.status == st::OK);
            match r {
                Some(r) => {
                    let ch = r.cas != prev[k];
                    prev[k] = r.cas;
                    if seen[k].last() != Some(&r.cas) {
                        seen[k].push(r.cas);
                    }
                    row.push(SweepRow { hit: true, value: r.value.clone(), flags: r.flags().unwrap_or(0), cas_changed: ch });
                }
                None => {
                    prev[k] = 0;
                    row.push(SweepRow { hit: false, value: vec![], flags: 0, cas_changed: false });
                }
            }
        }
        out.sweeps.push(row);
    }
    out
}

pub const RULE_C19: &str = "a case is one generated program (loud) plus quiet/loud masks over its positions; every variant runs on a fresh server with the same clock script and is swept (loud gets of all keys) after every command; non-trivial when the program has >=1 successful mutation and the mask toggles >=1 command; distinct by hash of (program shape, mask)";

/// "Quiet get misses are silent" under concurrency: while other connections set, delete, flush and let items
/// expire, a reader pipelines `getq k, getkq k, noop`. Whatever the interleaving, the only frames it may ever
/// receive for the quiet gets are hits (status 0, same payload rules as loud hits); a `Not found` frame for a
/// quiet get is a violation no matter when the key disappeared.
fn quiet_race(ctx: &Ctx, shared: &Mutex<Evidence>) {
    use std::sync::atomic::AtomicBool;
    use std::sync::Arc;
    let rounds = ctx.n(40_000, 400_000);
    for kind in [StoreKind::Plain, StoreKind::Random(1 << 40)] {
        let stack = Stack::new(kind, 100);
        let stop = Arc::new(AtomicBool::new(false));
        let keys: Vec<Vec<u8>> = (0..3).map(|i| format!("qr{}", i).into_bytes()).collect();
        let mut hs = vec![];
        for w in 0..3usize {
            let (memc, stop, keys, timer) = (stack.memc.clone(), stop.clone(), keys.clone(), stack.timer.clone());
            hs.push(std::thread::spawn(move || {
                let mut conn = Conn::new(memc, 1 << 20);
                let mut i = 0u32;
                while !stop.load(Ordering::Relaxed) {
                    let k = &keys[(i as usize + w) % keys.len()];
                    let f = match (w, i % 4) {
                        (0, 0 | 2) => wire::store(op::SET, k, b"present", 9, 0, i, 0),
                        (0, _) => wire::delete(op::DELETE, k, i, 0),
                        (1, 0) => wire::store(op::SET, k, b"short-lived", 9, 1, i, 0),
                        (1, 1) => {
                            timer.advance(1);
                            wire::simple(op::NOOP, i)
                        }
                        (1, _) => wire::store(op::ADD, k, b"added", 9, 0, i, 0),
                        (_, 3) if i % 64 == 3 => wire::flush(op::FLUSHQ, None, i),
                        _ => wire::store(op::SETQ, k, b"quiet", 9, 0, i, 0),
                    };
                    let _ = conn.feed(&f.encode());
                    i = i.wrapping_add(1);
                }
            }));
        }
        let mut conn = Conn::new(stack.memc.clone(), 1 << 20);
        let (mut hits, mut silent) = (0u64, 0u64);
        let mut bad: Option<(String, u64)> = None;
        for i in 0..rounds {
            let k = &keys[(i % 3) as usize];
            let mut buf = wire::get(op::GETQ, k, 1).encode();
            buf.extend(wire::get(op::GETKQ, k, 2).encode());
            buf.extend(wire::simple(op::NOOP, 3).encode());
            let out = conn.feed(&buf);
            match wire::parse_all(&out.bytes) {
                Ok(rs) => {
                    for r in &rs {
                        if r.opaque == 3 {
                            continue;
                        }
                        if r.status == st::OK {
                            hits += 1;
                        } else {
                            bad = Some((format!("round {}: a quiet get was answered with {}", i, r.brief()), i));
                        }
                    }
                    silent += 3 - rs.len() as u64;
                }
                Err(e) => bad = Some((format!("round {}: {}", i, e), i)),
            }
            if bad.is_some() {
                break;
            }
        }
        stop.store(true, Ordering::Relaxed);
        for h in hs {
            let _ = h.join();
        }
        let mut e = shared.lock().unwrap();
        e.evaluations += 1;
        e.count("quiet_race:quiet_get_hits", hits);
        e.count("quiet_race:quiet_get_misses_silent", silent);
        if hits > 0 && silent > 0 {
            e.nontrivial.insert(fnv(format!("quiet-race:{:?}", kind).as_bytes()));
        }
        if let Some((msg, round)) = bad {
            e.violation(
                Viol::new(&["C19", "C12"], "quiet-get-miss-answered", format!("while other connections set / delete / flush / expire the key: {}", msg)),
                json!({"engine":"c19-quiet-race","store":format!("{:?}",kind),"round":round}),
            );
        }
    }
}

pub fn run_c19(ctx: &Ctx) -> i32 {
    install_quiet_panic_hook();
    let prof = profile_for("C19");
    let mut ev0 = Evidence::new(ctx, "exploration", RULE_C19);
    ev0.assumptions = vec!["M-KV and the strict response parser; L1 boundary with a virtual clock".into()];
    let nprog = ctx.n(6000, 20000);
    let next = AtomicU64::new(0);
    let shared = Mutex::new(ev0);
    let deadline = if ctx.budget_s > 0 { Some(std::time::Instant::now() + std::time::Duration::from_secs(ctx.budget_s)) } else { None };
    std::thread::scope(|s| {
        for _ in 0..ctx.workers {
            s.spawn(|| loop {
                let c = next.fetch_add(1, Ordering::Relaxed);
                let over = match deadline {
                    Some(d) => std::time::Instant::now() > d && c >= nprog,
                    None => c >= nprog,
                };
                if over || ctx.only_case.map(|o| c > o).unwrap_or(false) {
                    break;
                }
                if let Some(o) = ctx.only_case {
                    if c != o {
                        continue;
                    }
                }
                let seed = ctx.case_seed("c19", c);
                let mut rng = SmallRng::seed_from_u64(seed);
                let limit = 4096;
                let kind = if rng.gen_bool(0.5) { StoreKind::Plain } else { StoreKind::Random(1 << 40) };
                let t0 = [0u64, 5, 1000][rng.gen_range(0..3)];
                let keys = key_pool(&mut rng, prof.nkeys);
                // generate the loud program by running it once against a scratch server
                let mut prog: Vec<Cmd> = vec![];
                {
                    let stack = Stack::new(kind, t0);
                    let mut conn = Conn::new(stack.memc.clone(), limit);
                    let mut m = Model::new(keys.len(), t0);
                    let mut texts = ErrTexts::default();
                    let mut tr = vec![];
                    let len = rng.gen_range(prof.len.0..=prof.len.1);
                    for i in 0..len {
                        let cmd = gen_cmd(&mut rng, &prof, &m, &keys, limit);
                        if let Cmd::Advance(d) = cmd {
                            m.now = stack.timer.advance(d);
                        } else if exec(&mut conn, &mut m, &mut texts, &keys, &cmd, i as u32, &mut tr).is_err() {
                            break; // reported by the variant run below
                        }
                        prog.push(cmd);
                    }
                }
                let n = prog.len();
                let mut masks: Vec<Vec<bool>> = vec![vec![false; n], vec![true; n]];
                masks.push((0..n).map(|_| rng.gen_bool(0.5)).collect());
                masks.push((0..n).map(|_| rng.gen_bool(0.2)).collect());
                if ctx.thorough() {
                    for i in 0..n {
                        let mut mk = vec![false; n];
                        mk[i] = true;
                        masks.push(mk);
                    }
                }
                let mut base: Option<VariantOut> = None;
                let mut local_ev: Vec<(Viol, serde_json::Value)> = vec![];
                let mut evals = 0u64;
                let mut fps = vec![];
                let mut cnt: BTreeMap<String, u64> = BTreeMap::new();
                for (mi, mask) in masks.iter().enumerate() {
                    let mut p2 = prog.clone();
                    let mut toggled = 0;
                    for (i, c) in p2.iter_mut().enumerate() {
                        if mask[i] && !matches!(c, Cmd::Advance(_)) {
                            c.set_quiet(true);
                            toggled += 1;
                        }
                    }
                    let v = run_variant(&p2, &keys, limit, kind, t0);
                    evals += 1;
                    *cnt.entry("variant_runs".into()).or_insert(0) += 1;
                    *cnt.entry("sweep_rows".into()).or_insert(0) += (v.sweeps.len() * keys.len()) as u64;
                    let shape: Vec<u8> = p2.iter().map(|c| c.opcode()).collect();
                    let has_mut = prog.iter().any(|c| c.is_mutation());
                    if has_mut && (toggled > 0 || mi == 0) {
                        fps.push(fnv(&shape));
                    }
                    if let Some(vi) = v.viol.clone() {
                        local_ev.push((vi, json!({"engine":"c19","case":c,"mask":mi,"trace":v.trace})));
                        break;
                    }
                    match &base {
                        None => base = Some(v),
                        Some(b) => {
                            let mut bad: Option<String> = None;
                            for (si, (x, y)) in b.sweeps.iter().zip(v.sweeps.iter()).enumerate() {
                                *cnt.entry("sweep_comparisons".into()).or_insert(0) += 1;
                                if x != y {
                                    bad = Some(format!(
                                        "after command {} (`{}` loud vs `{}`): stored items differ: loud {:?} vs variant {:?}",
                                        si,
                                        prog[si].brief(),
                                        op::name(p2[si].opcode()),
                                        x.iter().map(|r| (r.hit, wire::short(&r.value), r.flags, r.cas_changed)).collect::<Vec<_>>(),
                                        y.iter().map(|r| (r.hit, wire::short(&r.value), r.flags, r.cas_changed)).collect::<Vec<_>>()
                                    ));
                                    break;
                                }
                            }
                            if bad.is_none() {
                                for i in 0..n.min(v.errors.len()).min(b.errors.len()) {
                                    *cnt.entry("response_comparisons".into()).or_insert(0) += 1;
                                    // a quiet get's miss is silent by definition
                                    let quiet_get = matches!(p2[i], Cmd::Get { quiet: true, .. });
                                    if b.errors[i] != v.errors[i] && !quiet_get {
                                        bad = Some(format!("command {} `{}`: error response differs between loud {:?} and variant {:?}", i, prog[i].brief(), b.errors[i], v.errors[i]));
                                        break;
                                    }
                                    if b.hits[i] != v.hits[i] {
                                        bad = Some(format!("command {} `{}`: hit payload differs between loud and quiet variant", i, prog[i].brief()));
                                        break;
                                    }
                                }
                            }
                            if let Some(msg) = bad {
                                let mut tr = b.trace.clone();
                                tr.push("---- variant ----".into());
                                tr.extend(v.trace.clone());
                                local_ev.push((Viol::new(&["C19"], "quiet-loud-divergence", msg), json!({"engine":"c19","case":c,"mask":mi,"trace":tr})));
                                break;
                            }
                        }
                    }
                }
                let mut e = shared.lock().unwrap();
                e.evaluations += evals;
                e.merge_counters(&cnt);
                for f in fps {
                    e.nontrivial.insert(f);
                }
                if c < 2 {
                    e.sample(json!({"case": c, "program": prog.iter().map(|c| c.brief()).collect::<Vec<_>>(), "masks": masks.len()}));
                }
                for (v, d) in local_ev {
                    if ctx.only_case.is_some() {
                        println!("{}", serde_json::to_string_pretty(&d).unwrap());
                    }
                    e.violation(v, d);
                }
            });
        }
    });
    if !cfg!(miri) && ctx.only_case.is_none() {
        quiet_race(ctx, &shared);
    }
    shared.into_inner().unwrap().finish()
}
