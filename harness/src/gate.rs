//! Schedule forcing: hook dispatcher, gate controller, GateCache interposer,
//! and the stall classifier used by every multi-threaded engine.

use memcrs::cache::cache::{
    impl_details::CacheImplDetails, Cache, CacheMetaData, CachePredicate, CacheReadOnlyView, KeyType, Record, RemoveIfResult, SetStatus,
};
use memcrs::cache::error::Result as CResult;
use std::cell::RefCell;
use std::collections::{BTreeMap, HashMap};
use std::sync::atomic::{AtomicU64, Ordering};
use std::sync::{Arc, Condvar, Mutex};
use std::time::{Duration, Instant};

thread_local! {
    static CUR: RefCell<Option<(Arc<Ctl>, usize)>> = const { RefCell::new(None) };
}

/// Binds the calling thread to a controller as client `id` (None unbinds).
pub fn bind(ctl: Option<(Arc<Ctl>, usize)>) {
    CUR.with(|c| *c.borrow_mut() = ctl);
}

/// Installs the process-wide hook callback of memcrs::verif once; it forwards
/// every emit() to the controller the emitting thread is bound to.
pub fn install_hook() {
    #[cfg(memcrs_verif)]
    {
        static ONCE: std::sync::Once = std::sync::Once::new();
        ONCE.call_once(|| {
            memcrs::verif::install(Box::new(|point, a, b| {
                CUR.with(|c| {
                    let b0 = c.borrow();
                    if let Some((ctl, id)) = &*b0 {
                        ctl.at_point(*id, point, a, b);
                    }
                });
                global_event(point, a, b);
            }));
        });
    }
}

/// Process-wide observer for hook events that are emitted by threads the
/// harness does not own (tokio workers of an in-process server).
pub type GlobalObs = Box<dyn Fn(&'static str, u64, u64) + Send + Sync>;
static GLOBAL: Mutex<Option<Arc<GlobalObs>>> = Mutex::new(None);
static GLOBAL_ON: AtomicU64 = AtomicU64::new(0);

pub fn set_global_observer(o: Option<GlobalObs>) {
    let mut g = GLOBAL.lock().unwrap();
    GLOBAL_ON.store(o.is_some() as u64, Ordering::SeqCst);
    *g = o.map(Arc::new);
}

#[allow(dead_code)]
fn global_event(point: &'static str, a: u64, b: u64) {
    if GLOBAL_ON.load(Ordering::Relaxed) == 0 {
        return;
    }
    let o = GLOBAL.lock().unwrap().clone();
    if let Some(o) = o {
        o(point, a, b);
    }
}

#[derive(Clone, Debug)]
pub struct Park {
    pub client: usize,
    pub point: &'static str,
    /// k-th arrival of this client at this point (0-based)
    pub nth: usize,
    /// released when all of these clients have finished their programs
    pub wait_for: Vec<usize>,
}

#[derive(Default)]
struct CtlSt {
    finished: Vec<bool>,
    arrivals: HashMap<(usize, &'static str), usize>,
}

pub struct Ctl {
    pub parks: Vec<Park>,
    st: Mutex<CtlSt>,
    cv: Condvar,
    pub tick: AtomicU64,
    /// (client, point) in arrival order, for plan discovery
    pub events: Mutex<Vec<(usize, &'static str)>>,
    pub counts: Mutex<BTreeMap<&'static str, u64>>,
    /// random delay at every point: (probability in 1/1000, max microseconds)
    pub jitter: Option<(u32, u64)>,
    pub windows_hit: AtomicU64,
    pub windows_closed: AtomicU64,
    pub parked_now: AtomicU64,
    pub quiet_ms: u64,
    seed: AtomicU64,
}

impl Ctl {
    pub fn new(nclients: usize, parks: Vec<Park>, jitter: Option<(u32, u64)>, seed: u64) -> Arc<Ctl> {
        Arc::new(Ctl {
            parks,
            st: Mutex::new(CtlSt { finished: vec![false; nclients], arrivals: HashMap::new() }),
            cv: Condvar::new(),
            tick: AtomicU64::new(0),
            events: Mutex::new(vec![]),
            counts: Mutex::new(BTreeMap::new()),
            jitter,
            windows_hit: AtomicU64::new(0),
            windows_closed: AtomicU64::new(0),
            parked_now: AtomicU64::new(0),
            quiet_ms: if cfg!(miri) { 400 } else { 30 },
            seed: AtomicU64::new(seed | 1),
        })
    }

    fn rnd(&self) -> u64 {
        // xorshift; races between threads only add entropy
        let mut x = self.seed.load(Ordering::Relaxed);
        x ^= x << 13;
        x ^= x >> 7;
        x ^= x << 17;
        self.seed.store(x, Ordering::Relaxed);
        x
    }

    pub fn at_point(&self, client: usize, point: &'static str, _a: u64, _b: u64) {
        self.tick.fetch_add(1, Ordering::SeqCst);
        {
            let mut c = self.counts.lock().unwrap();
            *c.entry(point).or_insert(0) += 1;
        }
        let nth = {
            let mut st = self.st.lock().unwrap();
            let e = st.arrivals.entry((client, point)).or_insert(0);
            let n = *e;
            *e += 1;
            n
        };
        if self.parks.is_empty() && self.jitter.is_none() {
            let mut ev = self.events.lock().unwrap();
            if ev.len() < 4096 {
                ev.push((client, point));
            }
            return;
        }
        if let Some((p, max_us)) = self.jitter {
            let r = self.rnd();
            if (r % 1000) < p as u64 {
                let us = (r >> 20) % (max_us + 1);
                if us < 5 {
                    std::thread::yield_now();
                } else {
                    std::thread::sleep(Duration::from_micros(us));
                }
            }
        }
        let park = self.parks.iter().find(|p| p.client == client && p.point == point && p.nth == nth);
        if let Some(p) = park {
            self.parked_now.fetch_add(1, Ordering::SeqCst);
            let mut st = self.st.lock().unwrap();
            let mut last_tick = self.tick.load(Ordering::SeqCst);
            let mut last_change = Instant::now();
            let start = Instant::now();
            loop {
                if p.wait_for.iter().all(|c| st.finished.get(*c).copied().unwrap_or(true)) {
                    self.windows_hit.fetch_add(1, Ordering::SeqCst);
                    break;
                }
                let (g, _) = self.cv.wait_timeout(st, Duration::from_millis(3)).unwrap();
                st = g;
                let t = self.tick.load(Ordering::SeqCst);
                if t != last_tick {
                    last_tick = t;
                    last_change = Instant::now();
                }
                // the awaited clients make no progress: they are blocked on something this
                // client holds, i.e. the window is closed by a lock. Never hard-block.
                if last_change.elapsed() > Duration::from_millis(self.quiet_ms) || start.elapsed() > Duration::from_millis(self.quiet_ms * 40) {
                    self.windows_closed.fetch_add(1, Ordering::SeqCst);
                    break;
                }
            }
            drop(st);
            self.parked_now.fetch_sub(1, Ordering::SeqCst);
        }
    }

    pub fn op_done(&self, _client: usize) {
        self.tick.fetch_add(1, Ordering::SeqCst);
        self.cv.notify_all();
    }

    pub fn finished(&self, client: usize) {
        {
            let mut st = self.st.lock().unwrap();
            if client < st.finished.len() {
                st.finished[client] = true;
            }
        }
        self.tick.fetch_add(1, Ordering::SeqCst);
        self.cv.notify_all();
    }
}

/// Cache interposer: delegates everything, gates at entry and exit.
thread_local! {
    /// set by a harness thread that wants its next `Cache::set` (through a GateCache) to panic once
    pub static INJECT_PANIC_IN_SET: std::cell::Cell<bool> = const { std::cell::Cell::new(false) };
}

pub struct GateCache {
    pub inner: Arc<dyn Cache + Send + Sync>,
}

/// a harness-side gate point (used by GateCache and the virtual timer)
pub fn pt(point: &'static str) {
    CUR.with(|c| {
        let b = c.borrow();
        if let Some((ctl, id)) = &*b {
            ctl.at_point(*id, point, 0, 0);
        }
    });
}

impl CacheImplDetails for GateCache {
    fn get_by_key(&self, key: &KeyType) -> CResult<Record> {
        self.inner.get_by_key(key)
    }
    fn check_if_expired(&self, key: &KeyType, record: &Record) -> bool {
        self.inner.check_if_expired(key, record)
    }
}

impl Cache for GateCache {
    fn get(&self, key: &KeyType) -> CResult<Record> {
        pt("gc.get.enter");
        let r = self.inner.get(key);
        pt("gc.get.exit");
        r
    }
    fn set(&self, key: KeyType, record: Record) -> CResult<SetStatus> {
        pt("gc.set.enter");
        // fault injection: the calling thread asked for its next store to fail hard inside the cache
        if INJECT_PANIC_IN_SET.with(|f| f.replace(false)) {
            panic!("injected fault: panic inside Cache::set");
        }
        let r = self.inner.set(key, record);
        pt("gc.set.exit");
        r
    }
    fn delete(&self, key: KeyType, header: CacheMetaData) -> CResult<Record> {
        pt("gc.delete.enter");
        let r = self.inner.delete(key, header);
        pt("gc.delete.exit");
        r
    }
    fn flush(&self, header: CacheMetaData) {
        pt("gc.flush.enter");
        self.inner.flush(header);
        pt("gc.flush.exit");
    }
    fn len(&self) -> usize {
        self.inner.len()
    }
    fn is_empty(&self) -> bool {
        self.inner.is_empty()
    }
    fn as_read_only(&self) -> Box<dyn CacheReadOnlyView> {
        self.inner.as_read_only()
    }
    fn remove_if(&self, f: &mut CachePredicate) -> RemoveIfResult {
        self.inner.remove_if(f)
    }
    fn remove(&self, key: &KeyType) -> Option<(KeyType, Record)> {
        self.inner.remove(key)
    }
}

// ---------------------------------------------------------------------------
// stall classifier

pub fn gettid() -> i32 {
    #[cfg(miri)]
    {
        0
    }
    #[cfg(not(miri))]
    unsafe {
        libc::syscall(libc::SYS_gettid) as i32
    }
}

/// (state char, utime+stime ticks) of a thread of this process
pub fn task_stat(tid: i32) -> Option<(char, u64)> {
    let s = std::fs::read_to_string(format!("/proc/self/task/{}/stat", tid)).ok()?;
    let rp = s.rfind(')')?;
    let rest: Vec<&str> = s[rp + 2..].split(' ').collect();
    let state = rest.first()?.chars().next()?;
    let ut: u64 = rest.get(11)?.parse().ok()?;
    let stt: u64 = rest.get(12)?.parse().ok()?;
    Some((state, ut + stt))
}

#[derive(Debug, PartialEq, Clone)]
pub enum Stall {
    Deadlock(String),
    Livelock(String),
    Slow,
}

/// Classifies threads that did not finish: all asleep with no CPU consumed over
/// three samples => deadlock; burning CPU while `progress` stays frozen for
/// `livelock_s` seconds => livelock; otherwise slow.
pub fn classify_stall(tids: &[i32], progress: &dyn Fn() -> u64, livelock_s: u64) -> Stall {
    let sample = || -> Vec<Option<(char, u64)>> { tids.iter().map(|t| task_stat(*t)).collect() };
    let p0 = progress();
    let s0 = sample();
    std::thread::sleep(Duration::from_secs(1));
    let s1 = sample();
    std::thread::sleep(Duration::from_secs(1));
    let s2 = sample();
    if progress() != p0 {
        return Stall::Slow;
    }
    let alive: Vec<usize> = (0..tids.len()).filter(|i| s2[*i].is_some()).collect();
    if alive.is_empty() {
        return Stall::Slow;
    }
    let asleep = alive.iter().all(|i| {
        let (a, b, c) = (s0[*i], s1[*i], s2[*i]);
        match (a, b, c) {
            (Some((_, x)), Some((_, y)), Some((st, z))) => st == 'S' && x == y && y == z,
            _ => false,
        }
    });
    if asleep {
        let wchan: Vec<String> = alive
            .iter()
            .map(|i| std::fs::read_to_string(format!("/proc/self/task/{}/wchan", tids[*i])).unwrap_or_default())
            .collect();
        return Stall::Deadlock(format!("{} threads asleep (wchan {:?}) with no CPU time consumed over 2 s and no operation completing", alive.len(), wchan));
    }
    // somebody burns CPU: wait for the livelock horizon
    let t0 = Instant::now();
    while t0.elapsed() < Duration::from_secs(livelock_s) {
        std::thread::sleep(Duration::from_millis(500));
        if progress() != p0 {
            return Stall::Slow;
        }
    }
    let s3 = sample();
    let burning = alive.iter().any(|i| match (s2[*i], s3[*i]) {
        (Some((_, a)), Some((_, b))) => b > a + 50,
        _ => false,
    });
    if burning {
        Stall::Livelock(format!("threads consumed CPU for {} s while no operation completed", livelock_s))
    } else {
        Stall::Deadlock("threads blocked with no operation completing".into())
    }
}
