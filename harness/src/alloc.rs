//! Counting allocator (live bytes + high-water mark) for the per-connection
//! memory bound of C10. Declared as #[global_allocator] in the binary.
use std::alloc::{GlobalAlloc, Layout, System};
use std::sync::atomic::{AtomicUsize, Ordering};

pub struct Counting;

static LIVE: AtomicUsize = AtomicUsize::new(0);
static PEAK: AtomicUsize = AtomicUsize::new(0);

unsafe impl GlobalAlloc for Counting {
    unsafe fn alloc(&self, l: Layout) -> *mut u8 {
        let p = System.alloc(l);
        if !p.is_null() {
            let n = LIVE.fetch_add(l.size(), Ordering::Relaxed) + l.size();
            PEAK.fetch_max(n, Ordering::Relaxed);
        }
        p
    }
    unsafe fn dealloc(&self, p: *mut u8, l: Layout) {
        System.dealloc(p, l);
        LIVE.fetch_sub(l.size(), Ordering::Relaxed);
    }
    unsafe fn realloc(&self, p: *mut u8, l: Layout, new: usize) -> *mut u8 {
        let q = System.realloc(p, l, new);
        if !q.is_null() {
            if new >= l.size() {
                let n = LIVE.fetch_add(new - l.size(), Ordering::Relaxed) + (new - l.size());
                PEAK.fetch_max(n, Ordering::Relaxed);
            } else {
                LIVE.fetch_sub(l.size() - new, Ordering::Relaxed);
            }
        }
        q
    }
}

pub fn live() -> usize {
    LIVE.load(Ordering::Relaxed)
}
pub fn peak() -> usize {
    PEAK.load(Ordering::Relaxed)
}
pub fn reset_peak() {
    PEAK.store(LIVE.load(Ordering::Relaxed), Ordering::Relaxed);
}
