//! Wire codec written from the memcached binary protocol description, not from
//! the crate under test: request encoder (also produces ill-formed frames) and
//! a strict response parser, which is the C11 monitor and runs on every
//! response of every campaign.

pub mod op {
    pub const GET: u8 = 0x00;
    pub const SET: u8 = 0x01;
    pub const ADD: u8 = 0x02;
    pub const REPLACE: u8 = 0x03;
    pub const DELETE: u8 = 0x04;
    pub const INCR: u8 = 0x05;
    pub const DECR: u8 = 0x06;
    pub const QUIT: u8 = 0x07;
    pub const FLUSH: u8 = 0x08;
    pub const GETQ: u8 = 0x09;
    pub const NOOP: u8 = 0x0a;
    pub const VERSION: u8 = 0x0b;
    pub const GETK: u8 = 0x0c;
    pub const GETKQ: u8 = 0x0d;
    pub const APPEND: u8 = 0x0e;
    pub const PREPEND: u8 = 0x0f;
    pub const STAT: u8 = 0x10;
    pub const SETQ: u8 = 0x11;
    pub const ADDQ: u8 = 0x12;
    pub const REPLACEQ: u8 = 0x13;
    pub const DELETEQ: u8 = 0x14;
    pub const INCRQ: u8 = 0x15;
    pub const DECRQ: u8 = 0x16;
    pub const QUITQ: u8 = 0x17;
    pub const FLUSHQ: u8 = 0x18;
    pub const APPENDQ: u8 = 0x19;
    pub const PREPENDQ: u8 = 0x1a;
    pub const TOUCH: u8 = 0x1c;
    pub const GAT: u8 = 0x1d;
    pub const GATQ: u8 = 0x1e;
    pub const SASL_LIST: u8 = 0x20;
    pub const SASL_AUTH: u8 = 0x21;
    pub const SASL_STEP: u8 = 0x22;
    pub const GATK: u8 = 0x23;
    pub const GATKQ: u8 = 0x24;
    /// first value that is not an opcode of the protocol table used by memcrs
    pub const MAX: u8 = 0x25;

    /// opcodes of the protocol that memcrs recognises but does not implement
    pub const UNIMPLEMENTED: [u8; 8] = [
        TOUCH, GAT, GATQ, SASL_LIST, SASL_AUTH, SASL_STEP, GATK, GATKQ,
    ];

    pub fn is_known(o: u8) -> bool {
        o < MAX && o != 0x1b && o != 0x1f
    }

    pub fn is_quiet(o: u8) -> bool {
        matches!(
            o,
            GETQ | GETKQ
                | SETQ
                | ADDQ
                | REPLACEQ
                | DELETEQ
                | INCRQ
                | DECRQ
                | QUITQ
                | FLUSHQ
                | APPENDQ
                | PREPENDQ
                | GATQ
                | GATKQ
        )
    }

    pub fn name(o: u8) -> &'static str {
        match o {
            GET => "get",
            SET => "set",
            ADD => "add",
            REPLACE => "replace",
            DELETE => "delete",
            INCR => "incr",
            DECR => "decr",
            QUIT => "quit",
            FLUSH => "flush",
            GETQ => "getq",
            NOOP => "noop",
            VERSION => "version",
            GETK => "getk",
            GETKQ => "getkq",
            APPEND => "append",
            PREPEND => "prepend",
            STAT => "stat",
            SETQ => "setq",
            ADDQ => "addq",
            REPLACEQ => "replaceq",
            DELETEQ => "deleteq",
            INCRQ => "incrq",
            DECRQ => "decrq",
            QUITQ => "quitq",
            FLUSHQ => "flushq",
            APPENDQ => "appendq",
            PREPENDQ => "prependq",
            TOUCH => "touch",
            GAT => "gat",
            GATQ => "gatq",
            SASL_LIST => "sasl_list",
            SASL_AUTH => "sasl_auth",
            SASL_STEP => "sasl_step",
            GATK => "gatk",
            GATKQ => "gatkq",
            _ => "op?",
        }
    }
}

pub mod st {
    pub const OK: u16 = 0x00;
    pub const NOT_FOUND: u16 = 0x01;
    pub const EXISTS: u16 = 0x02;
    pub const TOO_LARGE: u16 = 0x03;
    pub const INVALID: u16 = 0x04;
    pub const NOT_STORED: u16 = 0x05;
    pub const NON_NUMERIC: u16 = 0x06;
    pub const UNKNOWN_CMD: u16 = 0x81;
    /// the protocol's status table (RFC draft + the values memcached uses)
    pub const TABLE: [u16; 15] = [
        0x00, 0x01, 0x02, 0x03, 0x04, 0x05, 0x06, 0x20, 0x21, 0x81, 0x82, 0x83, 0x84, 0x85, 0x86,
    ];
}

/// A request frame as raw header fields + body. `body` need not agree with the
/// length fields (hostile frames).
#[derive(Clone, Debug, PartialEq)]
pub struct Frame {
    pub magic: u8,
    pub opcode: u8,
    pub key_len: u16,
    pub extras_len: u8,
    pub data_type: u8,
    pub vbucket: u16,
    pub body_len: u32,
    pub opaque: u32,
    pub cas: u64,
    pub body: Vec<u8>,
}

impl Frame {
    pub fn encode(&self) -> Vec<u8> {
        let mut v = Vec::with_capacity(24 + self.body.len());
        self.encode_into(&mut v);
        v
    }
    pub fn encode_into(&self, v: &mut Vec<u8>) {
        v.push(self.magic);
        v.push(self.opcode);
        v.extend_from_slice(&self.key_len.to_be_bytes());
        v.push(self.extras_len);
        v.push(self.data_type);
        v.extend_from_slice(&self.vbucket.to_be_bytes());
        v.extend_from_slice(&self.body_len.to_be_bytes());
        v.extend_from_slice(&self.opaque.to_be_bytes());
        v.extend_from_slice(&self.cas.to_be_bytes());
        v.extend_from_slice(&self.body);
    }
    /// total length this frame's header announces
    pub fn announced_len(&self) -> usize {
        24 + self.body_len as usize
    }
    pub fn key(&self) -> &[u8] {
        let e = self.extras_len as usize;
        let k = self.key_len as usize;
        if e + k <= self.body.len() {
            &self.body[e..e + k]
        } else {
            &[]
        }
    }
}

/// well-formed request
pub fn req(opcode: u8, extras: &[u8], key: &[u8], value: &[u8], opaque: u32, cas: u64) -> Frame {
    let mut body = Vec::with_capacity(extras.len() + key.len() + value.len());
    body.extend_from_slice(extras);
    body.extend_from_slice(key);
    body.extend_from_slice(value);
    Frame {
        magic: 0x80,
        opcode,
        key_len: key.len() as u16,
        extras_len: extras.len() as u8,
        data_type: 0,
        vbucket: 0,
        body_len: body.len() as u32,
        opaque,
        cas,
        body,
    }
}

pub fn store(opcode: u8, key: &[u8], value: &[u8], flags: u32, ttl: u32, opaque: u32, cas: u64) -> Frame {
    let mut ex = [0u8; 8];
    ex[..4].copy_from_slice(&flags.to_be_bytes());
    ex[4..].copy_from_slice(&ttl.to_be_bytes());
    req(opcode, &ex, key, value, opaque, cas)
}

pub fn get(opcode: u8, key: &[u8], opaque: u32) -> Frame {
    req(opcode, &[], key, &[], opaque, 0)
}

pub fn delete(opcode: u8, key: &[u8], opaque: u32, cas: u64) -> Frame {
    req(opcode, &[], key, &[], opaque, cas)
}

pub fn concat(opcode: u8, key: &[u8], value: &[u8], opaque: u32, cas: u64) -> Frame {
    req(opcode, &[], key, value, opaque, cas)
}

pub fn counter(opcode: u8, key: &[u8], delta: u64, initial: u64, exp: u32, opaque: u32, cas: u64) -> Frame {
    let mut ex = [0u8; 20];
    ex[..8].copy_from_slice(&delta.to_be_bytes());
    ex[8..16].copy_from_slice(&initial.to_be_bytes());
    ex[16..].copy_from_slice(&exp.to_be_bytes());
    req(opcode, &ex, key, &[], opaque, cas)
}

pub fn flush(opcode: u8, delay: Option<u32>, opaque: u32) -> Frame {
    match delay {
        Some(d) => req(opcode, &d.to_be_bytes(), &[], &[], opaque, 0),
        None => req(opcode, &[], &[], &[], opaque, 0),
    }
}

pub fn simple(opcode: u8, opaque: u32) -> Frame {
    req(opcode, &[], &[], &[], opaque, 0)
}

/// A parsed response frame.
#[derive(Clone, Debug, PartialEq)]
pub struct Resp {
    pub opcode: u8,
    pub status: u16,
    pub opaque: u32,
    pub cas: u64,
    pub extras: Vec<u8>,
    pub key: Vec<u8>,
    pub value: Vec<u8>,
}

impl Resp {
    pub fn flags(&self) -> Option<u32> {
        if self.extras.len() == 4 {
            Some(u32::from_be_bytes([self.extras[0], self.extras[1], self.extras[2], self.extras[3]]))
        } else {
            None
        }
    }
    pub fn counter(&self) -> Option<u64> {
        if self.value.len() == 8 {
            let mut b = [0u8; 8];
            b.copy_from_slice(&self.value);
            Some(u64::from_be_bytes(b))
        } else {
            None
        }
    }
    pub fn brief(&self) -> String {
        format!(
            "{}:st={:#x},opq={},cas={},ex={},k={},v={}",
            op::name(self.opcode),
            self.status,
            self.opaque,
            self.cas,
            hex(&self.extras),
            self.key.len(),
            short(&self.value)
        )
    }
}

pub fn hex(b: &[u8]) -> String {
    let mut s = String::with_capacity(b.len() * 2);
    for x in b {
        s.push_str(&format!("{:02x}", x));
    }
    s
}

pub fn unhex(s: &str) -> Vec<u8> {
    (0..s.len() / 2)
        .map(|i| u8::from_str_radix(&s[2 * i..2 * i + 2], 16).unwrap_or(0))
        .collect()
}

pub fn short(b: &[u8]) -> String {
    if b.len() <= 24 {
        format!("{}:{}", b.len(), hex(b))
    } else {
        format!("{}:{}..{}", b.len(), hex(&b[..8]), hex(&b[b.len() - 4..]))
    }
}

/// Strict frame grammar of one response. `Ok(None)` = incomplete.
/// Errors are violations of C11's "well-formed frame" clause.
pub fn parse_one(buf: &[u8]) -> Result<Option<(Resp, usize)>, String> {
    if buf.is_empty() {
        return Ok(None);
    }
    if buf[0] != 0x81 {
        return Err(format!("response magic {:#x} != 0x81", buf[0]));
    }
    if buf.len() < 24 {
        return Ok(None);
    }
    let opcode = buf[1];
    let key_len = u16::from_be_bytes([buf[2], buf[3]]) as usize;
    let extras_len = buf[4] as usize;
    let data_type = buf[5];
    let status = u16::from_be_bytes([buf[6], buf[7]]);
    let body_len = u32::from_be_bytes([buf[8], buf[9], buf[10], buf[11]]) as usize;
    let opaque = u32::from_be_bytes([buf[12], buf[13], buf[14], buf[15]]);
    let mut c = [0u8; 8];
    c.copy_from_slice(&buf[16..24]);
    let cas = u64::from_be_bytes(c);
    if data_type != 0 {
        return Err(format!("response data type {} != 0", data_type));
    }
    if !st::TABLE.contains(&status) {
        return Err(format!("response status {:#x} not in the protocol table", status));
    }
    if extras_len + key_len > body_len {
        return Err(format!(
            "response extras({})+key({}) > body length({})",
            extras_len, key_len, body_len
        ));
    }
    if buf.len() < 24 + body_len {
        return Ok(None);
    }
    let body = &buf[24..24 + body_len];
    Ok(Some((
        Resp {
            opcode,
            status,
            opaque,
            cas,
            extras: body[..extras_len].to_vec(),
            key: body[extras_len..extras_len + key_len].to_vec(),
            value: body[extras_len + key_len..].to_vec(),
        },
        24 + body_len,
    )))
}

/// Parses a complete byte string into responses; a trailing partial frame is an
/// error (the bytes written for a response must be exactly 24 + body length).
pub fn parse_all(mut buf: &[u8]) -> Result<Vec<Resp>, String> {
    let mut out = Vec::new();
    while !buf.is_empty() {
        match parse_one(buf)? {
            Some((r, n)) => {
                out.push(r);
                buf = &buf[n..];
            }
            None => {
                return Err(format!(
                    "response bytes end inside a frame ({} trailing bytes: {})",
                    buf.len(),
                    short(buf)
                ))
            }
        }
    }
    Ok(out)
}

/// What the monitor needs to know about the request a response answers.
#[derive(Clone, Debug)]
pub struct ReqView {
    pub opcode: u8,
    pub opaque: u32,
    pub key: Vec<u8>,
}

impl ReqView {
    pub fn of(f: &Frame) -> ReqView {
        ReqView { opcode: f.opcode, opaque: f.opaque, key: f.key().to_vec() }
    }
}

/// The text the protocol attaches to a status (memcrs' table; any fixed text
/// per status satisfies C11, so consistency is what is demanded: see
/// `ErrTexts`).
#[derive(Default)]
pub struct ErrTexts {
    seen: std::collections::HashMap<u16, Vec<u8>>,
}

impl ErrTexts {
    pub fn check(&mut self, status: u16, text: &[u8]) -> Result<(), String> {
        if text.is_empty() || !text.iter().all(|b| (0x20..0x7f).contains(b)) {
            return Err(format!("error body for status {:#x} is not a message text: {}", status, short(text)));
        }
        match self.seen.get(&status) {
            Some(t) if t.as_slice() != text => Err(format!(
                "status {:#x} carried two different texts: {:?} vs {:?}",
                status,
                String::from_utf8_lossy(t),
                String::from_utf8_lossy(text)
            )),
            Some(_) => Ok(()),
            None => {
                self.seen.insert(status, text.to_vec());
                Ok(())
            }
        }
    }
}

/// C11 correlation + shape monitor for one (request, response) pair.
pub fn check_resp(rq: &ReqView, r: &Resp, texts: &mut ErrTexts) -> Result<(), String> {
    if r.opcode != rq.opcode {
        return Err(format!("opcode {:#x} not echoed (got {:#x})", rq.opcode, r.opcode));
    }
    if r.opaque != rq.opaque {
        return Err(format!("opaque {:#x} not echoed (got {:#x})", rq.opaque, r.opaque));
    }
    if r.status != st::OK {
        if !r.extras.is_empty() || !r.key.is_empty() {
            return Err(format!("error response carries extras/key: {}", r.brief()));
        }
        return texts.check(r.status, &r.value);
    }
    use op::*;
    match rq.opcode {
        GET | GETQ => {
            if r.extras.len() != 4 {
                return Err(format!("hit without 4 flag bytes: {}", r.brief()));
            }
            if !r.key.is_empty() {
                return Err(format!("get/getq echoed a key: {}", r.brief()));
            }
        }
        GETK | GETKQ => {
            if r.extras.len() != 4 {
                return Err(format!("hit without 4 flag bytes: {}", r.brief()));
            }
            if r.key != rq.key {
                return Err(format!("getk/getkq did not echo the key: {}", r.brief()));
            }
        }
        INCR | DECR | INCRQ | DECRQ => {
            if !r.extras.is_empty() || !r.key.is_empty() || r.value.len() != 8 {
                return Err(format!("counter response body is not 8 bytes: {}", r.brief()));
            }
        }
        SET | ADD | REPLACE | APPEND | PREPEND | SETQ | ADDQ | REPLACEQ | APPENDQ | PREPENDQ
        | DELETE | DELETEQ | FLUSH | FLUSHQ | NOOP | QUIT | QUITQ => {
            if !r.extras.is_empty() || !r.key.is_empty() || !r.value.is_empty() {
                return Err(format!("{} success carries a body: {}", op::name(rq.opcode), r.brief()));
            }
        }
        VERSION => {
            if !r.extras.is_empty() || !r.key.is_empty() || r.value.is_empty() {
                return Err(format!("version response malformed: {}", r.brief()));
            }
        }
        _ => {} // stat and unimplemented opcodes: any well-formed frame (L-g, L-h)
    }
    Ok(())
}
