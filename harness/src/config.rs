//! `config` engine (C20): the same client byte streams against servers started
//! through the real start-up path (cli::parser::parse + create_memcrs_server, in
//! a child process; or the memcrsd binary) under different runtime configurations.

use crate::ev::{fnv, Ctx, Evidence, Viol};
use crate::kv::{self, install_quiet_panic_hook};
use crate::l3::{ask, parse_prefix};
use crate::model::{CasArg, Cmd, Model};
use crate::sock::{Cli, End};
use crate::wire::{self, op, st, ErrTexts, ReqView};
use rand::rngs::SmallRng;
use rand::{Rng, SeedableRng};
use serde_json::json;
use std::collections::BTreeMap;
use std::process::{Child, Command, Stdio};
use std::sync::atomic::{AtomicU16, Ordering};
use std::sync::Mutex;
use std::time::{Duration, Instant};

/// `mcv serve <memcrsd arguments>`: what bin/memcrsd.rs does after logging set-up
pub fn serve(args: &[String]) -> i32 {
    let mut a = vec!["memcrsd".to_string()];
    a.extend_from_slice(args);
    let cfg = match memcrs::memcache::cli::parser::parse(a) {
        Ok(c) => c,
        Err(e) => {
            eprintln!("{}", e);
            return 1;
        }
    };
    let timer = std::sync::Arc::new(memcrs::server::timer::SystemTimer::new());
    let rt = memcrs::memcache_server::runtime_builder::create_memcrs_server(cfg, timer.clone());
    rt.block_on(timer.run());
    0
}

#[derive(Clone, Debug, PartialEq)]
pub struct Conf {
    pub runtime: &'static str,
    pub threads: usize,
    pub eviction: &'static str,
    pub item_limit: u32,
    pub conn_limit: u32,
}

impl Conf {
    fn args(&self, port: u16) -> Vec<String> {
        vec![
            "--port".into(),
            port.to_string(),
            "--runtime-type".into(),
            self.runtime.into(),
            "--threads".into(),
            self.threads.to_string(),
            "--eviction-policy".into(),
            self.eviction.into(),
            "--memory-limit".into(),
            "1GiB".into(),
            "--item-size-limit".into(),
            format!("{}B", self.item_limit),
            "--connection-limit".into(),
            self.conn_limit.to_string(),
            "--backlog-limit".into(),
            "64".into(),
            "--verbose".into(),
        ]
    }
    fn name(&self) -> String {
        format!("{}/t{}/{}/item{}/conn{}", self.runtime, self.threads, self.eviction, self.item_limit, self.conn_limit)
    }
}

pub struct Proc {
    child: Child,
    pub port: u16,
}

impl Drop for Proc {
    fn drop(&mut self) {
        let _ = self.child.kill();
        let _ = self.child.wait();
    }
}

static NEXT: AtomicU16 = AtomicU16::new(0);

pub fn start(conf: &Conf, server_bin: &Option<String>) -> Result<Proc, String> {
    for _ in 0..30 {
        let port = 15000 + ((std::process::id() as u16 % 20) * 400) + (NEXT.fetch_add(1, Ordering::Relaxed) % 400);
        let mut cmd = match server_bin {
            Some(b) => Command::new(b),
            None => {
                let mut c = Command::new(std::env::current_exe().map_err(|e| e.to_string())?);
                c.arg("serve");
                c
            }
        };
        cmd.args(conf.args(port)).stdin(Stdio::null()).stdout(Stdio::null()).stderr(Stdio::null());
        // the server must not outlive a harness that is killed or aborted by a sanitizer
        unsafe {
            use std::os::unix::process::CommandExt;
            cmd.pre_exec(|| {
                libc::prctl(libc::PR_SET_PDEATHSIG, libc::SIGKILL);
                Ok(())
            });
        }
        let mut child = cmd.spawn().map_err(|e| e.to_string())?;
        let t0 = Instant::now();
        let mut up = false;
        while t0.elapsed() < Duration::from_secs(6) {
            if let Ok(Some(_)) = child.try_wait() {
                break;
            }
            if let Ok(mut c) = Cli::connect_plain(port) {
                // make sure it is our server that answers
                if ask(&mut c, &wire::simple(op::NOOP, 1)).map(|r| r.status == st::OK).unwrap_or(false) {
                    up = true;
                    break;
                }
            }
            std::thread::sleep(Duration::from_millis(30));
        }
        let mut p = Proc { child, port };
        if up {
            // the probe connection must be gone before limits are measured
            std::thread::sleep(Duration::from_millis(100));
            // a foreign listener on that port would have answered while our child failed to bind
            if let Ok(None) = p.child.try_wait() {
                return Ok(p);
            }
        }
    }
    Err("server did not come up".into())
}

pub const RULE_C20: &str = "a case is one (runtime configuration, generated single-connection program): the server is started through the real start-up path (child process running cli::parser::parse + runtime_builder::create_memcrs_server, or the memcrsd binary) with one combination of runtime type, worker threads, eviction policy, item size limit, connection limit and port; the program's response bytes are compared byte for byte with those of the first configuration and checked against M-KV; per configuration the item limit is probed at limit and limit+1, the connection limit by opening limit+1 connections, and expiry by a real-time TTL probe; non-trivial when the program produced a hit, a miss and an error; distinct by (configuration, program hash)";

pub fn run_c20(ctx: &Ctx) -> i32 {
    install_quiet_panic_hook();
    let mut ev0 = Evidence::new(ctx, "exploration", RULE_C20);
    ev0.assumptions = vec![
        "real start-up path in a child process; 1 Hz SystemTimer driven by the parent runtime as in bin/memcrsd.rs; TTL probed with +-1 tick tolerance".into(),
        "programs use bodies below the smallest item limit and TTL 0, so every configuration must answer identically".into(),
    ];
    let server_bin = ctx.extra.get("server-bin").cloned();
    let mut all: Vec<Conf> = vec![];
    for runtime in ["current-thread", "multi-thread"] {
        for threads in [1usize, 2, 8] {
            for eviction in ["none", "random"] {
                for item_limit in [1024u32, 1 << 20] {
                    for conn_limit in [2u32, 1024] {
                        all.push(Conf { runtime, threads, eviction, item_limit, conn_limit });
                    }
                }
            }
        }
    }
    let mut rng = SmallRng::seed_from_u64(ctx.case_seed("config", 0));
    let confs: Vec<Conf> = if ctx.thorough() {
        all.clone()
    } else {
        // a covering subset: every value of every dimension at least once, plus the combination
        // that multiplies listeners with a small connection limit
        let mut v = vec![
            Conf { runtime: "current-thread", threads: 8, eviction: "none", item_limit: 1024, conn_limit: 2 },
            Conf { runtime: "multi-thread", threads: 2, eviction: "random", item_limit: 1 << 20, conn_limit: 2 },
            Conf { runtime: "current-thread", threads: 1, eviction: "random", item_limit: 1 << 20, conn_limit: 1024 },
            Conf { runtime: "multi-thread", threads: 8, eviction: "none", item_limit: 1024, conn_limit: 1024 },
            Conf { runtime: "current-thread", threads: 2, eviction: "random", item_limit: 1024, conn_limit: 2 },
        ];
        for _ in 0..3 {
            let c = all[rng.gen_range(0..all.len())].clone();
            if !v.contains(&c) {
                v.push(c);
            }
        }
        v
    };
    // programs (the same for every configuration)
    let nprog = ctx.n(20, 60) as usize;
    let prof = kv::Profile { nkeys: 4, w: [24, 22, 8, 8, 10, 10, 8, 0, 6, 0], p_cas: 0.3, p_quiet: 0.25, p_numeric: 0.3, p_boundary: 0.0, p_ttl: 0.0, len: (20, 80) };
    let mut programs: Vec<(Vec<Vec<u8>>, Vec<(Cmd, u64)>)> = vec![];
    for pi in 0..nprog {
        let mut r = SmallRng::seed_from_u64(ctx.case_seed("config-prog", pi as u64));
        let keys: Vec<Vec<u8>> = (0..prof.nkeys).map(|i| format!("prog{}-k{}", pi, i).into_bytes()).collect();
        let m = Model::new(keys.len(), 0);
        let len = r.gen_range(prof.len.0..=prof.len.1);
        let mut cmds = vec![];
        for _ in 0..len {
            let mut c = kv::gen_cmd(&mut r, &prof, &m, &keys, 900);
            if r.gen_ratio(1, 25) {
                // a flush whose deadline lies far beyond the run: no visible effect, but the command runs
                c = Cmd::Flush { delay: Some([3600u32, 86_400][r.gen_range(0..2)]), quiet: r.gen_bool(0.3) };
            }
            // nothing in a program may depend on real time: the servers run on the 1 Hz wall clock, and a counter
            // created with an expiration of 1 or 100 s would expire sooner or later depending on how fast a
            // configuration happens to run (F17)
            if let Cmd::Counter { exp, .. } = &mut c {
                if *exp != 0xffff_ffff && *exp < 1_000_000 {
                    *exp = 0;
                }
            }
            if let Cmd::Store { ttl, .. } = &mut c {
                if *ttl != 0 && *ttl < 1_000_000 {
                    *ttl = 0;
                }
            }
            let mut cas = 0u64;
            match &mut c {
                Cmd::Store { cas: a, .. } | Cmd::Concat { cas: a, .. } | Cmd::Counter { cas: a, .. } | Cmd::Delete { cas: a, .. } => {
                    if !matches!(a, CasArg::Zero) {
                        cas = r.gen_range(1..60);
                        *a = CasArg::Raw(cas);
                    }
                }
                _ => {}
            }
            cmds.push((c, cas));
        }
        programs.push((keys, cmds));
    }
    let shared = Mutex::new(ev0);
    let results: Mutex<BTreeMap<usize, Vec<Vec<u8>>>> = Mutex::new(BTreeMap::new());
    std::thread::scope(|s| {
        for (ci, conf) in confs.iter().enumerate() {
            let (shared, results, programs, server_bin) = (&shared, &results, &programs, &server_bin);
            s.spawn(move || {
                let mut local: BTreeMap<String, u64> = BTreeMap::new();
                let proc_ = match start(conf, server_bin) {
                    Ok(p) => p,
                    Err(e) => {
                        shared.lock().unwrap().inconclusive.push(format!("configuration {}: {}", conf.name(), e));
                        return;
                    }
                };
                let port = proc_.port;
                let describe = |what: serde_json::Value| json!({"engine":"config","configuration":conf.name(),"args":conf.args(port),"detail":what});
                let mut viols: Vec<(Viol, serde_json::Value)> = vec![];
                let mut fps = vec![];
                let mut evals = 0u64;
                // real-time TTL probe, started first (runs alongside the programs)
                let ttl_key = format!("ttl-{}", ci).into_bytes();
                let mut tc = Cli::connect_plain(port).ok();
                let t_set = Instant::now();
                if let Some(c) = tc.as_mut() {
                    let _ = ask(c, &wire::store(op::SET, &ttl_key, b"t", 0, 4, 1, 0));
                }
                drop(tc.take());
                // programs
                let mut texts = ErrTexts::default();
                let mut outs: Vec<Vec<u8>> = vec![];
                for (pi, (keys, cmds)) in programs.iter().enumerate() {
                    let mut c = match Cli::connect_plain(port) {
                        Ok(c) => c,
                        Err(_) => break,
                    };
                    let mut m = Model::new(keys.len(), 0);
                    let mut stream = vec![];
                    let mut frames = vec![];
                    for (i, (cmd, cas)) in cmds.iter().enumerate() {
                        let f = cmd.frame(keys, *cas, i as u32);
                        f.encode_into(&mut stream);
                        frames.push(f);
                    }
                    wire::simple(op::NOOP, crate::l3::SENTINEL).encode_into(&mut stream);
                    use std::io::Write;
                    let _ = c.s.write_all(&stream);
                    // read until the sentinel
                    let t0 = Instant::now();
                    loop {
                        c.read_frames(usize::MAX, Duration::from_millis(50));
                        if c.end != End::Open || parse_prefix(&c.rx).iter().any(|r| r.opaque == crate::l3::SENTINEL) || t0.elapsed() > Duration::from_secs(10) {
                            break;
                        }
                    }
                    evals += 1;
                    let rx = c.rx.clone();
                    // M-KV in arrival order
                    match wire::parse_all(&rx) {
                        Err(e) => viols.push((Viol::new(&["C11", "C20"], "resp-grammar", e), describe(json!({"program": pi})))),
                        Ok(rs) => {
                            let mut it = rs.iter().peekable();
                            let (mut hit, mut miss, mut err) = (false, false, false);
                            for (i, (cmd, cas)) in cmds.iter().enumerate() {
                                let mut mine = vec![];
                                while let Some(r) = it.peek() {
                                    if r.opaque == i as u32 {
                                        mine.push((*r).clone());
                                        it.next();
                                    } else {
                                        break;
                                    }
                                }
                                for r in &mine {
                                    if let Err(e) = wire::check_resp(&ReqView::of(&frames[i]), r, &mut texts) {
                                        viols.push((Viol::new(&["C11", "C20"], "resp-shape", e), describe(json!({"program": pi, "request": i}))));
                                    }
                                    if matches!(cmd, Cmd::Get { .. }) {
                                        hit |= r.status == st::OK;
                                        miss |= r.status == st::NOT_FOUND;
                                    } else {
                                        err |= r.status != st::OK;
                                    }
                                }
                                *local.entry("model_comparisons".into()).or_insert(0) += 1;
                                if let Err(mut v) = m.apply(cmd, *cas, mine.first()) {
                                    v.props.push("C20");
                                    v.msg = format!("configuration {} program {} request #{}: {}", conf.name(), pi, i, v.msg);
                                    viols.push((v, describe(json!({"program": pi, "request": i, "command": cmd.brief()}))));
                                    break;
                                }
                            }
                            if hit && miss && err {
                                fps.push(fnv(format!("{}:{}", conf.name(), fnv(&stream)).as_bytes()));
                            }
                        }
                    }
                    outs.push(rx);
                }
                results.lock().unwrap().insert(ci, outs);
                // item size limit: the configured one is the one enforced
                if let Ok(mut c) = Cli::connect_plain(port) {
                    let l = conf.item_limit as usize;
                    let k = b"limitprobe";
                    let at = wire::store(op::SET, k, &vec![b'v'; l - 8 - k.len()], 0, 0, 1, 0);
                    let over = wire::store(op::SET, k, &vec![b'v'; l - 8 - k.len() + 1], 0, 0, 2, 0);
                    let r1 = ask(&mut c, &at);
                    let r2 = ask(&mut c, &over);
                    *local.entry("item_limit_probes".into()).or_insert(0) += 2;
                    if r1.as_ref().map(|r| r.status != st::OK).unwrap_or(true) || r2.as_ref().map(|r| r.status != st::TOO_LARGE).unwrap_or(true) {
                        viols.push((
                            Viol::new(&["C20", "C13"], "item-limit-not-the-configured-one", format!("configuration {}: body == limit answered {:?}, body == limit+1 answered {:?}", conf.name(), r1.map(|r| r.status), r2.map(|r| r.status))),
                            describe(json!({"item_limit": l})),
                        ));
                    }
                }
                // ... and an oversized request is skipped cleanly under every configured limit: one write carrying
                // the oversized set and two followers must be answered 0x03, hit, noop
                if let Ok(mut c) = Cli::connect_plain(port) {
                    use std::io::Write;
                    let l = conf.item_limit as usize;
                    let k = b"limitprobe";
                    let mut one = wire::store(op::SET, b"skipme", &vec![b'w'; l - 8 - 6 + 1], 0, 0, 11, 0).encode();
                    one.extend(wire::get(op::GET, k, 12).encode());
                    one.extend(wire::simple(op::NOOP, 13).encode());
                    let _ = c.s.write_all(&one);
                    c.read_frames(3, Duration::from_secs(5));
                    let rs = crate::l3::parse_prefix(&c.rx);
                    let got: Vec<(u32, u16)> = rs.iter().map(|r| (r.opaque, r.status)).collect();
                    *local.entry("oversized_with_followers_probes".into()).or_insert(0) += 1;
                    if got != vec![(11, st::TOO_LARGE), (12, st::OK), (13, st::OK)] {
                        viols.push((
                            Viol::new(&["C20", "C13"], "oversized-skip-differs-by-configuration", format!("configuration {}: oversized set (body limit+1), get, noop written at once were answered {:?} (opaque, status), expected [(11, 0x3), (12, 0x0), (13, 0x0)]", conf.name(), got)),
                            describe(json!({"item_limit": l})),
                        ));
                    }
                }
                // connection limit
                {
                    let want = if conf.conn_limit == 2 { 2usize } else { 24 };
                    let mut open = vec![];
                    let mut served = 0;
                    for i in 0..want + 1 {
                        if let Ok(mut c) = Cli::connect_plain(port) {
                            let wait = if i < want { Duration::from_secs(5) } else { Duration::from_millis(400) };
                            use std::io::Write;
                            let _ = c.s.write_all(&wire::simple(op::NOOP, 100 + i as u32).encode());
                            c.read_frames(1, wait);
                            if parse_prefix(&c.rx).iter().any(|r| r.opaque == 100 + i as u32) {
                                served += 1;
                            }
                            open.push(c);
                        }
                    }
                    *local.entry("connection_limit_probes".into()).or_insert(0) += 1;
                    let expect = if conf.conn_limit == 2 { 2 } else { want + 1 };
                    if served != expect {
                        viols.push((
                            Viol::new(&["C20", "C17"], "connection-limit-not-the-configured-one", format!("configuration {}: {} of {} simultaneous connections were served, expected {}", conf.name(), served, want + 1, expect)),
                            describe(json!({"connection_limit": conf.conn_limit})),
                        ));
                    }
                }
                // expiry follows real seconds
                {
                    // ttl=4 stored at tick k expires between 3 and 4 real seconds later: it must be there at
                    // +2.5 s (a clock running twice as fast would have expired it) and gone at +5.5 s (a clock
                    // running at half speed would still have it)
                    let el = t_set.elapsed();
                    if el < Duration::from_millis(2500) {
                        std::thread::sleep(Duration::from_millis(2500) - el);
                    }
                    let early = t_set.elapsed() < Duration::from_millis(2900);
                    if let Ok(mut c) = Cli::connect_plain(port) {
                        let r = ask(&mut c, &wire::get(op::GET, &ttl_key, 5));
                        *local.entry("ttl_probes".into()).or_insert(0) += 1;
                        if early && r.as_ref().map(|r| r.status != st::OK).unwrap_or(true) {
                            viols.push((Viol::new(&["C20", "C05"], "ttl-expired-early", format!("configuration {}: item with ttl=4 missing {:.1} s after the store", conf.name(), t_set.elapsed().as_secs_f64())), describe(json!({}))));
                        }
                    }
                    let el = t_set.elapsed();
                    if el < Duration::from_millis(5500) {
                        std::thread::sleep(Duration::from_millis(5500) - el);
                    }
                    if let Ok(mut c) = Cli::connect_plain(port) {
                        let r = ask(&mut c, &wire::get(op::GET, &ttl_key, 6));
                        *local.entry("ttl_probes".into()).or_insert(0) += 1;
                        if r.as_ref().map(|r| r.status != st::NOT_FOUND).unwrap_or(true) {
                            viols.push((Viol::new(&["C20", "C05"], "ttl-not-real-time", format!("configuration {}: item with ttl=4 still answered {:?} {:.1} s after the store", conf.name(), r.map(|r| r.status), t_set.elapsed().as_secs_f64())), describe(json!({}))));
                        }
                    }
                }
                let mut e = shared.lock().unwrap();
                e.evaluations += evals;
                e.merge_counters(&local);
                e.count("configurations", 1);
                for f in fps {
                    e.nontrivial.insert(f);
                }
                if ci < 2 {
                    e.sample(describe(json!({"programs": programs.len()})));
                }
                for (v, d) in viols {
                    e.violation(v, d);
                }
            });
        }
    });
    // byte equality across configurations
    let mut ev = shared.into_inner().unwrap();
    let res = results.into_inner().unwrap();
    if let Some((c0, base)) = res.iter().next() {
        for (ci, outs) in res.iter() {
            if ci == c0 {
                continue;
            }
            for (pi, (a, b)) in base.iter().zip(outs.iter()).enumerate() {
                ev.count("cross_configuration_comparisons", 1);
                if a != b {
                    let ra = parse_prefix(a);
                    let rb = parse_prefix(b);
                    let first = ra.iter().zip(rb.iter()).position(|(x, y)| x != y).unwrap_or(ra.len().min(rb.len()));
                    ev.violation(
                        Viol::new(&["C20"], "configurations-differ", format!("program {}: responses under {} differ from those under {} (first difference at response #{}: {:?} vs {:?})", pi, confs[*ci].name(), confs[*c0].name(), first, rb.get(first).map(|r| r.brief()), ra.get(first).map(|r| r.brief()))),
                        json!({"engine":"config","program":pi,"configuration_a":confs[*c0].name(),"configuration_b":confs[*ci].name(),"commands":programs[pi].1.iter().map(|c| c.0.brief()).collect::<Vec<_>>()}),
                    );
                    break;
                }
            }
        }
    }
    ev.finish()
}
