//! Evidence files, replay files, known findings, run context.

use serde_json::{json, Map, Value};
use std::collections::{BTreeMap, HashSet};
use std::time::Instant;

pub const VERIF_DIR: &str = "/verif";

#[derive(Clone, Debug)]
pub struct Ctx {
    pub prop: String,
    pub tier: String,
    pub seed: u64,
    /// run only this case (replay)
    pub only_case: Option<u64>,
    /// scale factor for workload sizes (1.0 = tier default)
    pub scale: f64,
    /// seconds budget for time-bounded loops (thorough)
    pub budget_s: u64,
    pub workers: usize,
    /// tag appended to evidence when the run is a sanitizer leg ("miri", "asan", "tsan", "release")
    pub leg: String,
    pub extra: BTreeMap<String, String>,
}

impl Ctx {
    pub fn from_args(args: &[String]) -> Ctx {
        let mut c = Ctx {
            prop: String::new(),
            tier: std::env::var("VERIF_TIER").unwrap_or_else(|_| "quick".into()),
            seed: std::env::var("VERIF_SEED").ok().and_then(|s| s.parse().ok()).unwrap_or(1),
            only_case: None,
            scale: 1.0,
            budget_s: 0,
            workers: 16,
            leg: "native".into(),
            extra: BTreeMap::new(),
        };
        let mut i = 0;
        while i < args.len() {
            let a = args[i].as_str();
            let v = args.get(i + 1).cloned().unwrap_or_default();
            match a {
                "--prop" => c.prop = v,
                "--tier" => c.tier = v,
                "--seed" => c.seed = v.parse().unwrap_or(1),
                "--case" => c.only_case = v.parse().ok(),
                "--scale" => c.scale = v.parse().unwrap_or(1.0),
                "--budget" => c.budget_s = v.parse().unwrap_or(0),
                "--workers" => c.workers = v.parse().unwrap_or(16),
                "--leg" => c.leg = v,
                _ => {
                    if let Some(k) = a.strip_prefix("--") {
                        c.extra.insert(k.to_string(), v);
                    }
                }
            }
            i += 2;
        }
        if c.tier != "thorough" {
            c.tier = "quick".into();
        }
        c
    }
    pub fn thorough(&self) -> bool {
        self.tier == "thorough"
    }
    pub fn n(&self, quick: u64, thorough: u64) -> u64 {
        let b = if self.thorough() { thorough } else { quick };
        ((b as f64) * self.scale).max(1.0) as u64
    }
    pub fn case_seed(&self, engine: &str, case: u64) -> u64 {
        let mut h: u64 = 0xcbf29ce484222325;
        for b in engine.bytes().chain(self.prop.bytes()) {
            h ^= b as u64;
            h = h.wrapping_mul(0x100000001b3);
        }
        splitmix(h ^ self.seed.wrapping_mul(0x9E3779B97F4A7C15) ^ case.wrapping_mul(0xD1B54A32D192ED03))
    }
}

pub fn splitmix(mut x: u64) -> u64 {
    x = x.wrapping_add(0x9E3779B97F4A7C15);
    let mut z = x;
    z = (z ^ (z >> 30)).wrapping_mul(0xBF58476D1CE4E5B9);
    z = (z ^ (z >> 27)).wrapping_mul(0x94D049BB133111EB);
    z ^ (z >> 31)
}

pub fn fnv(bytes: &[u8]) -> u64 {
    let mut h: u64 = 0xcbf29ce484222325;
    for b in bytes {
        h ^= *b as u64;
        h = h.wrapping_mul(0x100000001b3);
    }
    h
}

/// A refuting observation.
#[derive(Clone, Debug)]
pub struct Viol {
    /// properties this observation refutes (primary first)
    pub props: Vec<&'static str>,
    /// stable signature (used for known findings)
    pub sig: String,
    pub msg: String,
}

impl Viol {
    pub fn new(props: &[&'static str], sig: &str, msg: String) -> Viol {
        Viol { props: props.to_vec(), sig: sig.to_string(), msg }
    }
    pub fn hits(&self, prop: &str) -> bool {
        self.props.iter().any(|p| *p == prop)
    }
}

#[derive(Default)]
pub struct Known {
    pub known: Vec<(String, String, String)>, // property, signature, what
}

impl Known {
    pub fn load() -> Known {
        let mut k = Known::default();
        if let Ok(s) = std::fs::read_to_string(format!("{}/known_findings.json", VERIF_DIR)) {
            if let Ok(v) = serde_json::from_str::<Value>(&s) {
                if let Some(a) = v.get("known").and_then(|x| x.as_array()) {
                    for e in a {
                        k.known.push((
                            e["property"].as_str().unwrap_or("").to_string(),
                            e["signature"].as_str().unwrap_or("").to_string(),
                            e["what"].as_str().unwrap_or("").to_string(),
                        ));
                    }
                }
            }
        }
        k
    }
    pub fn find(&self, prop: &str, sig: &str) -> Option<&(String, String, String)> {
        self.known.iter().find(|(p, s, _)| p == prop && s == sig)
    }
}

/// Collects what a run observed and writes the evidence file.
pub struct Evidence {
    pub ctx: Ctx,
    pub level: &'static str,
    pub start: Instant,
    pub evaluations: u64,
    pub nontrivial: HashSet<u64>,
    pub rule: String,
    pub samples: Vec<Value>,
    pub counters: BTreeMap<String, u64>,
    pub extra: Map<String, Value>,
    pub assumptions: Vec<String>,
    pub violations: Vec<(Viol, String)>,
    pub known_hits: BTreeMap<String, u64>,
    pub foreign: BTreeMap<String, u64>,
    pub inconclusive: Vec<String>,
    pub exhaustive: bool,
    known: Known,
}

impl Evidence {
    pub fn new(ctx: &Ctx, level: &'static str, rule: &str) -> Evidence {
        Evidence {
            ctx: ctx.clone(),
            level,
            start: Instant::now(),
            evaluations: 0,
            nontrivial: HashSet::new(),
            rule: rule.to_string(),
            samples: vec![],
            counters: BTreeMap::new(),
            extra: Map::new(),
            assumptions: vec![],
            violations: vec![],
            known_hits: BTreeMap::new(),
            foreign: BTreeMap::new(),
            inconclusive: vec![],
            exhaustive: false,
            known: Known::load(),
        }
    }
    pub fn count(&mut self, k: &str, n: u64) {
        *self.counters.entry(k.to_string()).or_insert(0) += n;
    }
    pub fn merge_counters(&mut self, m: &BTreeMap<String, u64>) {
        for (k, v) in m {
            *self.counters.entry(k.clone()).or_insert(0) += v;
        }
    }
    pub fn sample(&mut self, v: Value) {
        if self.samples.len() < 4 {
            self.samples.push(v);
        }
    }
    /// Registers an observation that refutes some property. Returns true when
    /// it counts as a violation of the property this check decides.
    pub fn violation(&mut self, v: Viol, replay: Value) -> bool {
        let prop = self.ctx.prop.clone();
        if !v.hits(&prop) {
            let n = self.foreign.entry(format!("{}:{}", v.props.join("+"), v.sig)).or_insert(0);
            *n += 1;
            if *n <= 2 {
                let mut c = self.ctx.clone();
                c.leg = format!("{}-foreign-{}", c.leg, v.sig);
                let path = write_replay(&c, *n as usize, &v, replay);
                println!("note: foreign observation {} {} replay={}", v.props.join("+"), v.msg, path);
            }
            return false;
        }
        if let Some((_, sig, what)) = self.known.find(&prop, &v.sig) {
            let key = format!("{} {}", sig, what);
            *self.known_hits.entry(key).or_insert(0) += 1;
            return false;
        }
        if self.violations.len() < 20 {
            let path = write_replay(&self.ctx, self.violations.len(), &v, replay);
            self.violations.push((v, path));
        }
        true
    }
    pub fn finish(mut self) -> i32 {
        let wall = self.start.elapsed().as_secs_f64();
        for (k, n) in &self.known_hits {
            println!("KNOWN-FINDING: property={} {} (seen {} times)", self.ctx.prop, k, n);
        }
        for (k, n) in &self.foreign {
            println!("note: observation refuting another property (decided by its own check): {} x{}", k, n);
        }
        for s in &self.inconclusive {
            println!("INCONCLUSIVE: {}", s);
        }
        let unstopped = crate::sock::SERVERS_NOT_STOPPED.load(std::sync::atomic::Ordering::SeqCst);
        if unstopped > 0 {
            self.counters.insert("servers_that_did_not_stop_within_4s_of_the_stop_signal".into(), unstopped);
        }
        let mut cov = Map::new();
        cov.insert("evaluations".into(), json!(self.evaluations));
        cov.insert("distinct_nontrivial".into(), json!(self.nontrivial.len()));
        cov.insert("rule".into(), json!(self.rule));
        cov.insert("samples".into(), Value::Array(self.samples.clone()));
        cov.insert("exhaustive".into(), json!(self.exhaustive));
        cov.insert("observed".into(), json!(self.counters));
        cov.insert("leg".into(), json!(self.ctx.leg));
        cov.insert("inconclusive".into(), json!(self.inconclusive));
        cov.insert("known_findings_seen".into(), json!(self.known_hits));
        cov.insert("foreign_observations".into(), json!(self.foreign));
        for (k, v) in std::mem::take(&mut self.extra) {
            cov.insert(k, v);
        }
        let doc = json!({
            "property_id": self.ctx.prop,
            "tier": self.ctx.tier,
            "seed": self.ctx.seed,
            "level": self.level,
            "coverage": Value::Object(cov),
            "assumptions": self.assumptions,
            "wall_s": wall,
            "violations": self.violations.len(),
        });
        // sanitizer / secondary legs write next to the main file; the driver merges
        let name = if self.ctx.leg == "native" {
            format!("{}/evidence/{}.json", VERIF_DIR, self.ctx.prop)
        } else {
            format!("{}/evidence/.legs/{}.{}.json", VERIF_DIR, self.ctx.prop, self.ctx.leg)
        };
        if let Some(p) = std::path::Path::new(&name).parent() {
            let _ = std::fs::create_dir_all(p);
        }
        let _ = std::fs::write(&name, serde_json::to_string_pretty(&doc).unwrap());
        println!(
            "[{} {} {} seed={}] evaluations={} distinct_nontrivial={} violations={} known={} inconclusive={} wall={:.1}s",
            self.ctx.prop,
            self.ctx.tier,
            self.ctx.leg,
            self.ctx.seed,
            self.evaluations,
            self.nontrivial.len(),
            self.violations.len(),
            self.known_hits.len(),
            self.inconclusive.len(),
            wall
        );
        if !self.violations.is_empty() {
            for (v, path) in &self.violations {
                println!("VIOLATION property={} replay={}", self.ctx.prop, path);
                println!("  {} [{}]", v.msg, v.sig);
            }
            return 1;
        }
        if self.evaluations == 0 || self.nontrivial.len() < 2 {
            println!("HARNESS: vacuous run (evaluations={}, distinct_nontrivial={})", self.evaluations, self.nontrivial.len());
            return 3;
        }
        0
    }
}

pub fn write_replay(ctx: &Ctx, n: usize, v: &Viol, detail: Value) -> String {
    let dir = format!("{}/replays", VERIF_DIR);
    let _ = std::fs::create_dir_all(&dir);
    let path = format!("{}/{}-{}-{}-{}.json", dir, ctx.prop, ctx.leg, ctx.seed, n);
    let doc = json!({
        "property": ctx.prop, "tier": ctx.tier, "seed": ctx.seed, "leg": ctx.leg,
        "refutes": v.props, "signature": v.sig, "message": v.msg, "case": detail,
    });
    let _ = std::fs::write(&path, serde_json::to_string_pretty(&doc).unwrap());
    path
}
