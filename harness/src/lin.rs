//! `lin` engine (L2): small concurrent programs on one key under forced
//! schedules (gate plans), jitter and free OS scheduling, checked for
//! linearizability against a one-key sequential specification (Wing-Gong search,
//! memoised); plus stress rounds with conservation monitors and a stall
//! classifier. Serves C03, C04 and C16 (and a concurrency leg of C01).

use crate::ev::{fnv, Ctx, Evidence, Viol};
use crate::gate::{self, Ctl, GateCache, Park, Stall};
use crate::kv::install_quiet_panic_hook;
use crate::l1::{Conn, Stack, StoreKind, VirtualTimer};
use crate::model::{parse_counter, CasArg, Cmd};
use crate::wire::{self, op, st, Resp};
use memcrs::cache::cache::Cache;
use memcrs::memcache::random_policy::RandomPolicy;
use memcrs::memory_store::store::MemoryStore;
use rand::rngs::SmallRng;
use rand::{Rng, SeedableRng};
use serde_json::json;
use std::collections::{BTreeMap, HashSet};
use std::sync::atomic::{AtomicBool, AtomicU64, Ordering};
use std::sync::{Arc, Barrier, Mutex};
use std::time::{Duration, Instant};

pub const KEY: &[u8] = b"the-key";
pub const OTHER: &[u8] = b"other";

// ---------------------------------------------------------------------------
// one-key sequential specification (DESIGN.md appendix A)

#[derive(Clone, PartialEq, Eq, Hash, Debug)]
pub enum KS {
    Absent,
    /// `cl`: the lifetime was begun by a store carrying a non-zero CAS on an absent key
    /// (client-derived CAS): outside the token-uniqueness claim (C02's quantifier)
    Present { v: Vec<u8>, f: Option<u32>, c: u64, live: bool, cl: bool },
}

fn status_of(cmd: &Cmd, r: Option<&Resp>) -> u16 {
    match r {
        Some(r) => r.status,
        None => {
            if matches!(cmd, Cmd::Get { .. }) {
                st::NOT_FOUND
            } else {
                st::OK
            }
        }
    }
}

/// successor states admissible for `cmd` answered by `r` in state `s`
pub fn step(s: &KS, cmd: &Cmd, cas: u64, r: Option<&Resp>) -> Vec<KS> {
    let status = status_of(cmd, r);
    let rc = r.map(|r| r.cas).unwrap_or(0);
    let acked = |ok: bool| ok && (r.is_none() || rc != 0);
    let same = || vec![s.clone()];
    let none = || vec![];
    match cmd {
        Cmd::Get { .. } => match s {
            KS::Absent => {
                if status == st::NOT_FOUND {
                    same()
                } else {
                    none()
                }
            }
            KS::Present { v, f, c, live, .. } => {
                if *live {
                    match r {
                        Some(r) if r.status == st::OK => {
                            if &r.value == v && r.cas == *c && f.map(|f| Some(f) == r.flags()).unwrap_or(true) {
                                same()
                            } else if &r.value == v && *c == 0 && r.cas != 0 && f.map(|f| Some(f) == r.flags()).unwrap_or(true) {
                                // the CAS of an item written by a silent (quiet) mutation is learnt from the first hit
                                if let KS::Present { v, f, live, cl, .. } = s {
                                    vec![KS::Present { v: v.clone(), f: *f, c: r.cas, live: *live, cl: *cl }]
                                } else {
                                    none()
                                }
                            } else {
                                none()
                            }
                        }
                        _ => none(),
                    }
                } else if status == st::NOT_FOUND {
                    vec![KS::Absent, s.clone()]
                } else {
                    none()
                }
            }
        },
        Cmd::Store { op: sop, value, flags, .. } => {
            let cont_cl = matches!(s, KS::Present { live: true, cl: true, .. });
            let newp = |c: u64| KS::Present { v: value.clone(), f: Some(*flags), c, live: true, cl: cont_cl };
            let newcl = |c: u64| KS::Present { v: value.clone(), f: Some(*flags), c, live: true, cl: true };
            match (*sop, s) {
                (op::SET, _) if cas == 0 => {
                    if acked(status == st::OK) {
                        if let KS::Present { c, live: true, cl: false, .. } = s {
                            if r.is_some() && rc == *c {
                                return none();
                            }
                        }
                        vec![newp(rc)]
                    } else {
                        none()
                    }
                }
                (op::SET, KS::Absent) => match status {
                    st::OK if acked(true) => vec![newcl(rc)],
                    st::NOT_FOUND | st::EXISTS => same(),
                    _ => none(),
                },
                (op::SET, KS::Present { c, live, cl, .. }) => {
                    if *live {
                        if cas == *c {
                            if acked(status == st::OK) && (rc != *c || *cl) {
                                vec![newp(rc)]
                            } else {
                                none()
                            }
                        } else if status == st::EXISTS {
                            same()
                        } else {
                            none()
                        }
                    } else {
                        match status {
                            st::OK if acked(true) => vec![newcl(rc)],
                            st::NOT_FOUND | st::EXISTS => vec![KS::Absent, s.clone()],
                            _ => none(),
                        }
                    }
                }
                (op::ADD, KS::Present { live: true, .. }) => {
                    if status == st::EXISTS {
                        same()
                    } else {
                        none()
                    }
                }
                (op::ADD, _) => {
                    if acked(status == st::OK) {
                        vec![newp(rc)]
                    } else {
                        none()
                    }
                }
                (_, KS::Absent) => {
                    if status == st::NOT_FOUND {
                        same()
                    } else {
                        none()
                    }
                }
                (_, KS::Present { c, live, cl, .. }) => {
                    // replace
                    if !*live {
                        if status == st::NOT_FOUND {
                            vec![KS::Absent, s.clone()]
                        } else {
                            none()
                        }
                    } else if cas == 0 || cas == *c {
                        if acked(status == st::OK) && (rc != *c || *cl) {
                            vec![newp(rc)]
                        } else {
                            none()
                        }
                    } else if status == st::EXISTS {
                        same()
                    } else {
                        none()
                    }
                }
            }
        }
        Cmd::Concat { append, value, .. } => match s {
            KS::Absent => {
                if status == st::NOT_FOUND {
                    same()
                } else {
                    none()
                }
            }
            KS::Present { v, f, c, live, cl } => {
                if !*live {
                    if status == st::NOT_FOUND {
                        vec![KS::Absent, s.clone()]
                    } else {
                        none()
                    }
                } else if cas == 0 || cas == *c {
                    if acked(status == st::OK) && (rc != *c || *cl) {
                        let mut nv = Vec::with_capacity(v.len() + value.len());
                        if *append {
                            nv.extend_from_slice(v);
                            nv.extend_from_slice(value);
                        } else {
                            nv.extend_from_slice(value);
                            nv.extend_from_slice(v);
                        }
                        vec![KS::Present { v: nv, f: *f, c: rc, live: true, cl: *cl }]
                    } else {
                        none()
                    }
                } else if status == st::EXISTS {
                    same()
                } else {
                    none()
                }
            }
        },
        Cmd::Counter { incr, delta, initial, exp, .. } => {
            let create = |s: &KS| -> Vec<KS> {
                if *exp == 0xffff_ffff {
                    if status == st::NOT_FOUND {
                        match s {
                            KS::Absent => vec![KS::Absent],
                            _ => vec![KS::Absent, s.clone()],
                        }
                    } else {
                        vec![]
                    }
                } else if acked(status == st::OK) && r.map(|r| r.counter() == Some(*initial)).unwrap_or(true) {
                    vec![KS::Present { v: initial.to_string().into_bytes(), f: None, c: rc, live: true, cl: cas != 0 }]
                } else {
                    vec![]
                }
            };
            match s {
                KS::Absent => create(s),
                KS::Present { live: false, .. } => create(s),
                KS::Present { v, f, c, cl, .. } => match parse_counter(v) {
                    None => {
                        if status == st::NON_NUMERIC {
                            same()
                        } else {
                            none()
                        }
                    }
                    Some(cur) => {
                        if cas != 0 && cas != *c {
                            if status == st::EXISTS {
                                same()
                            } else {
                                none()
                            }
                        } else {
                            let nv = if *incr { cur.wrapping_add(*delta) } else { cur.saturating_sub(*delta) };
                            if acked(status == st::OK) && (rc != *c || *cl) && r.map(|r| r.counter() == Some(nv)).unwrap_or(true) {
                                vec![KS::Present { v: nv.to_string().into_bytes(), f: *f, c: rc, live: true, cl: *cl }]
                            } else {
                                none()
                            }
                        }
                    }
                },
            }
        }
        Cmd::Delete { .. } => match s {
            KS::Absent => {
                if status == st::NOT_FOUND {
                    same()
                } else {
                    none()
                }
            }
            KS::Present { c, live, .. } => {
                if *live {
                    if cas == 0 || cas == *c {
                        if status == st::OK {
                            vec![KS::Absent]
                        } else {
                            none()
                        }
                    } else if status == st::EXISTS {
                        same()
                    } else {
                        none()
                    }
                } else {
                    match status {
                        st::OK | st::NOT_FOUND => vec![KS::Absent],
                        st::EXISTS if cas != 0 => same(),
                        _ => none(),
                    }
                }
            }
        },
        Cmd::Flush { delay, .. } => {
            if status != st::OK {
                return none();
            }
            match delay {
                None | Some(0) => vec![KS::Absent],
                // delayed flush in frozen time: the item may be treated as gone at once (memcrs
                // shortens relative to the store time) or stay
                _ => match s {
                    KS::Absent => same(),
                    KS::Present { v, f, c, cl, .. } => vec![s.clone(), KS::Present { v: v.clone(), f: *f, c: *c, live: false, cl: *cl }],
                },
            }
        }
        _ => same(),
    }
}

#[derive(Clone, Debug)]
pub struct HOp {
    pub client: usize,
    pub cmd: Cmd,
    pub cas: u64,
    pub call: u64,
    pub ret: u64,
    pub resp: Option<Resp>,
}

impl HOp {
    pub fn brief(&self) -> String {
        format!(
            "c{} [{}..{}] {} cas={} -> {}",
            self.client,
            self.call,
            self.ret,
            self.cmd.brief(),
            self.cas,
            self.resp.as_ref().map(|r| r.brief()).unwrap_or_else(|| "(silent)".into())
        )
    }
}

pub enum LinRes {
    Ok,
    No { best: usize },
    Budget,
}

/// Wing-Gong search with memoisation on (linearised set, state).
pub fn linearizable(ops: &[HOp], init: &KS, budget: u64) -> LinRes {
    let n = ops.len();
    assert!(n <= 63);
    let all: u64 = if n == 0 { 0 } else { (1u64 << n) - 1 };
    let mut memo: HashSet<(u64, KS)> = HashSet::new();
    let mut stack: Vec<(u64, KS)> = vec![(0, init.clone())];
    let mut nodes = 0u64;
    let mut best = 0usize;
    while let Some((mask, state)) = stack.pop() {
        if mask == all {
            return LinRes::Ok;
        }
        nodes += 1;
        if nodes > budget {
            return LinRes::Budget;
        }
        best = best.max(mask.count_ones() as usize);
        // minimal ops: not yet linearised and no other pending op returned before they were called
        let mut min_ret = u64::MAX;
        for i in 0..n {
            if mask & (1 << i) == 0 {
                min_ret = min_ret.min(ops[i].ret);
            }
        }
        for i in 0..n {
            if mask & (1 << i) != 0 || ops[i].call > min_ret {
                continue;
            }
            for s2 in step(&state, &ops[i].cmd, ops[i].cas, ops[i].resp.as_ref()) {
                let k = (mask | (1 << i), s2);
                if memo.insert(k.clone()) {
                    stack.push(k);
                }
            }
        }
    }
    LinRes::No { best }
}

// ---------------------------------------------------------------------------
// programs

#[derive(Clone, Copy, Debug, PartialEq)]
pub enum Init {
    Absent,
    Present,
    Expired,
    Counter,
}

#[derive(Clone, Debug)]
pub struct Program {
    pub init: Init,
    pub clients: Vec<Vec<Cmd>>,
    /// memory limit when the stack has the random policy (C16 eviction alphabet)
    pub policy: Option<u64>,
}

/// symbolic op of the alphabets; CAS "current"/"stale" refer to the tokens of the set-up
#[derive(Clone, Copy, Debug, PartialEq)]
pub enum A {
    Get,
    Set,
    SetCur,
    SetStale,
    Del,
    DelCur,
    Add,
    Replace,
    Append,
    Prepend,
    Incr,
    Decr,
    FlushNow,
    FlushLater,
    SetOther,
    GetOther,
    SetTtl,
    SetCurTtl,
    SetMax,
}

pub const ALPHA_C03: [A; 9] = [A::Get, A::Set, A::SetCur, A::SetStale, A::Del, A::DelCur, A::SetTtl, A::SetCurTtl, A::SetMax];
pub const ALPHA_C05: [A; 8] = [A::Get, A::Set, A::SetTtl, A::Add, A::Append, A::Incr, A::Del, A::Replace];
pub const ALPHA_C04: [A; 9] = [A::Add, A::Replace, A::Append, A::Prepend, A::Incr, A::Decr, A::Get, A::Set, A::Del];
pub const ALPHA_C16: [A; 12] = [
    A::Get,
    A::Set,
    A::Add,
    A::Append,
    A::Incr,
    A::Del,
    A::FlushNow,
    A::FlushLater,
    A::SetOther,
    A::GetOther,
    A::Replace,
    A::SetCur,
];

pub struct Setup {
    pub cur: u64,
    pub stale: u64,
}

pub fn concrete(a: A, client: usize, idx: usize, su: &Setup) -> Cmd {
    let tag = format!("c{}.{}", client, idx).into_bytes();
    match a {
        A::Get => Cmd::Get { key: 0, k: false, quiet: false },
        A::GetOther => Cmd::Get { key: 1, k: false, quiet: false },
        A::Set => Cmd::Store { op: op::SET, key: 0, value: tag, flags: client as u32 + 10, ttl: 0, cas: CasArg::Zero, quiet: false },
        // a CAS store that carries a TTL shorter than the predecessor's age (stored at t=100, now t=200)
        A::SetCurTtl => Cmd::Store { op: op::SET, key: 0, value: tag, flags: client as u32 + 50, ttl: 50, cas: CasArg::Raw(su.cur), quiet: false },
        // CAS at the top of the range: cas + 1 does not exist
        A::SetMax => Cmd::Store { op: op::SET, key: 0, value: tag, flags: client as u32 + 60, ttl: 0, cas: CasArg::Raw(u64::MAX), quiet: false },
        // at t=200 with a predecessor stored at t=100: old timestamp + 50 <= now < now + 50
        A::SetTtl => Cmd::Store { op: op::SET, key: 0, value: tag, flags: client as u32 + 40, ttl: 50, cas: CasArg::Zero, quiet: false },
        A::SetOther => Cmd::Store { op: op::SET, key: 1, value: vec![b'x'; 400], flags: 0, ttl: 0, cas: CasArg::Zero, quiet: false },
        A::SetCur => Cmd::Store { op: op::SET, key: 0, value: tag, flags: 21, ttl: 0, cas: CasArg::Raw(su.cur), quiet: false },
        A::SetStale => Cmd::Store { op: op::SET, key: 0, value: tag, flags: 22, ttl: 0, cas: CasArg::Raw(su.stale), quiet: false },
        A::Del => Cmd::Delete { key: 0, cas: CasArg::Zero, quiet: false },
        A::DelCur => Cmd::Delete { key: 0, cas: CasArg::Raw(su.cur), quiet: false },
        A::Add => Cmd::Store { op: op::ADD, key: 0, value: tag, flags: 31, ttl: 0, cas: CasArg::Zero, quiet: false },
        A::Replace => Cmd::Store { op: op::REPLACE, key: 0, value: tag, flags: 32, ttl: 0, cas: CasArg::Zero, quiet: false },
        A::Append => Cmd::Concat { append: true, key: 0, value: format!("[a{}.{}]", client, idx).into_bytes(), cas: CasArg::Zero, quiet: false },
        A::Prepend => Cmd::Concat { append: false, key: 0, value: format!("[p{}.{}]", client, idx).into_bytes(), cas: CasArg::Zero, quiet: false },
        A::Incr => Cmd::Counter { incr: true, key: 0, delta: 3, initial: 100, exp: 0, cas: CasArg::Zero, quiet: false },
        A::Decr => Cmd::Counter { incr: false, key: 0, delta: 2, initial: 50, exp: 0, cas: CasArg::Zero, quiet: false },
        A::FlushNow => Cmd::Flush { delay: None, quiet: false },
        A::FlushLater => Cmd::Flush { delay: Some(1000), quiet: false },
    }
}

pub fn cas_of(cmd: &Cmd) -> u64 {
    match cmd.cas_arg() {
        Some(CasArg::Raw(x)) => *x,
        _ => 0,
    }
}

pub struct World {
    pub stack: Stack,
    pub keys: Vec<Vec<u8>>,
}

/// builds the stack MemcStore -> GateCache -> [RandomPolicy ->] MemoryStore and the initial state
pub fn build_world(init: Init, policy: Option<u64>) -> (World, Setup, KS) {
    let timer = VirtualTimer::new(100);
    let inner = Arc::new(MemoryStore::new(timer.clone()));
    let (pol, below): (Option<Arc<RandomPolicy>>, Arc<dyn Cache + Send + Sync>) = match policy {
        None => (None, inner.clone()),
        Some(l) => {
            let p = Arc::new(RandomPolicy::new(inner.clone(), l));
            (Some(p.clone()), p)
        }
    };
    let top: Arc<dyn Cache + Send + Sync> = Arc::new(GateCache { inner: below });
    let stack = Stack::with_top(timer.clone(), inner, pol, top);
    let keys = vec![KEY.to_vec(), OTHER.to_vec()];
    let mut conn = Conn::new(stack.memc.clone(), 1 << 20);
    let mut su = Setup { cur: 0xdead, stale: 0xbeef };
    let mut ks = KS::Absent;
    let do_set = |conn: &mut Conn, v: &[u8], ttl: u32| -> u64 {
        let out = conn.feed(&wire::store(op::SET, KEY, v, 7, ttl, 1, 0).encode());
        wire::parse_all(&out.bytes).ok().and_then(|r| r.into_iter().next()).map(|r| r.cas).unwrap_or(0)
    };
    // a token that is stale in every initial state
    su.stale = do_set(&mut conn, b"older", 0);
    match init {
        Init::Absent => {
            let _ = conn.feed(&wire::delete(op::DELETE, KEY, 2, 0).encode());
        }
        Init::Present => {
            su.cur = do_set(&mut conn, b"init", 0);
            ks = KS::Present { v: b"init".to_vec(), f: Some(7), c: su.cur, live: true, cl: false };
            timer.set(200); // the predecessor has an age
        }
        Init::Counter => {
            su.cur = do_set(&mut conn, b"10", 0);
            ks = KS::Present { v: b"10".to_vec(), f: Some(7), c: su.cur, live: true, cl: false };
            timer.set(200);
        }
        Init::Expired => {
            su.cur = do_set(&mut conn, b"old", 5);
            timer.set(200);
            ks = KS::Present { v: b"old".to_vec(), f: Some(7), c: su.cur, live: false, cl: false };
        }
    }
    (World { stack, keys }, su, ks)
}

#[derive(Clone, Debug)]
pub enum Sched {
    Free,
    Jitter(u32, u64),
    Plan(Vec<Park>),
    /// no concurrency: clients one after the other (point discovery)
    Sequential,
}

pub struct RunOut {
    pub history: Vec<HOp>,
    pub events: Vec<(usize, &'static str)>,
    pub hit: u64,
    pub closed: u64,
    pub stall: Option<Stall>,
    pub counts: BTreeMap<&'static str, u64>,
    pub final_state_resp: Option<Resp>,
    pub panicked: Option<String>,
    pub world: Option<World>,
}

/// Runs one program under one schedule. Client threads are detached on a stall
/// (the caller reports and exits the process).
pub fn run_program(p: &Program, sched: &Sched, seed: u64) -> (RunOut, KS) {
    gate::install_hook();
    let (world, su, ks) = build_world(p.init, p.policy);
    let n = p.clients.len();
    let (parks, jitter) = match sched {
        Sched::Plan(pl) => (pl.clone(), None),
        Sched::Jitter(pr, us) => (vec![], Some((*pr, *us))),
        _ => (vec![], None),
    };
    let ctl = Ctl::new(n, parks, jitter, seed);
    let ticket = Arc::new(AtomicU64::new(1));
    let hist: Arc<Mutex<Vec<HOp>>> = Arc::new(Mutex::new(vec![]));
    let tids: Arc<Mutex<Vec<i32>>> = Arc::new(Mutex::new(vec![]));
    let done = Arc::new(AtomicU64::new(0));
    let progress = Arc::new(AtomicU64::new(0));
    let panicked: Arc<Mutex<Option<String>>> = Arc::new(Mutex::new(None));
    let sequential = matches!(sched, Sched::Sequential);
    let barrier = Arc::new(Barrier::new(if sequential { 1 } else { n }));
    let turn = Arc::new(AtomicU64::new(0));
    let mut handles = vec![];
    for (ci, ops) in p.clients.iter().enumerate() {
        let cmds: Vec<Cmd> = ops.clone();
        let memc = world.stack.memc.clone();
        let keys = world.keys.clone();
        let (ctl, ticket, hist, tids, done, progress, barrier, turn, panicked) =
            (ctl.clone(), ticket.clone(), hist.clone(), tids.clone(), done.clone(), progress.clone(), barrier.clone(), turn.clone(), panicked.clone());
        let _ = &su;
        handles.push(std::thread::spawn(move || {
            tids.lock().unwrap().push(gate::gettid());
            gate::bind(Some((ctl.clone(), ci)));
            let mut conn = Conn::new(memc, 1 << 20);
            if sequential {
                while turn.load(Ordering::SeqCst) != ci as u64 {
                    std::thread::yield_now();
                }
            } else {
                barrier.wait();
            }
            for (oi, cmd) in cmds.iter().enumerate() {
                let cas = cas_of(cmd);
                let frame = cmd.frame(&keys, cas, (ci * 100 + oi) as u32).encode();
                let call = ticket.fetch_add(1, Ordering::SeqCst);
                let out = std::panic::catch_unwind(std::panic::AssertUnwindSafe(|| conn.feed(&frame)));
                let ret = ticket.fetch_add(1, Ordering::SeqCst);
                match out {
                    Ok(o) => {
                        let resp = wire::parse_all(&o.bytes).ok().and_then(|v| v.into_iter().next());
                        hist.lock().unwrap().push(HOp { client: ci, cmd: cmd.clone(), cas, call, ret, resp });
                    }
                    Err(e) => {
                        *panicked.lock().unwrap() = Some(crate::kv::panic_text(&e));
                    }
                }
                progress.fetch_add(1, Ordering::SeqCst);
                ctl.op_done(ci);
            }
            ctl.finished(ci);
            gate::bind(None);
            turn.fetch_add(1, Ordering::SeqCst);
            done.fetch_add(1, Ordering::SeqCst);
        }));
    }
    // supervise
    let t0 = Instant::now();
    let mut stall = None;
    let patience = if cfg!(miri) { 600 } else { 8 };
    loop {
        if done.load(Ordering::SeqCst) as usize == n {
            break;
        }
        if t0.elapsed() > Duration::from_secs(patience) {
            let t = tids.lock().unwrap().clone();
            let pr = progress.clone();
            let c = gate::classify_stall(&t, &move || pr.load(Ordering::SeqCst), 20);
            if c != Stall::Slow || t0.elapsed() > Duration::from_secs(patience + 120) {
                stall = Some(c);
                break;
            }
        }
        std::thread::sleep(Duration::from_micros(if cfg!(miri) { 1000 } else { 50 }));
    }
    if stall.is_none() {
        for h in handles {
            let _ = h.join();
        }
    }
    let mut history = hist.lock().unwrap().clone();
    // quiescent read, appended to the history
    let mut fin = None;
    if stall.is_none() {
        let mut conn = Conn::new(world.stack.memc.clone(), 1 << 20);
        let g = Cmd::Get { key: 0, k: false, quiet: false };
        let call = ticket.fetch_add(1, Ordering::SeqCst);
        let out = conn.feed(&g.frame(&world.keys, 0, 9999).encode());
        let ret = ticket.fetch_add(1, Ordering::SeqCst);
        let resp = wire::parse_all(&out.bytes).ok().and_then(|v| v.into_iter().next());
        fin = resp.clone();
        history.push(HOp { client: 99, cmd: g, cas: 0, call, ret, resp });
    }
    let out = RunOut {
        history,
        events: ctl.events.lock().unwrap().clone(),
        hit: ctl.windows_hit.load(Ordering::SeqCst),
        closed: ctl.windows_closed.load(Ordering::SeqCst),
        stall,
        counts: ctl.counts.lock().unwrap().clone(),
        final_state_resp: fin,
        panicked: panicked.lock().unwrap().clone(),
        world: Some(world),
    };
    (out, ks)
}

/// only ops on the key under test take part in the one-key check
fn key_ops(h: &[HOp]) -> Vec<HOp> {
    h.iter().filter(|o| o.cmd.key() == Some(0) || matches!(o.cmd, Cmd::Flush { .. })).cloned().collect()
}

fn overlap_count(h: &[HOp]) -> usize {
    let mut n = 0;
    for i in 0..h.len() {
        for j in i + 1..h.len() {
            if h[i].client != h[j].client && h[i].call < h[j].ret && h[j].call < h[i].ret {
                n += 1;
            }
        }
    }
    n
}

fn canon(h: &[HOp]) -> u64 {
    let mut v = vec![];
    let mut hs: Vec<&HOp> = h.iter().collect();
    hs.sort_by_key(|o| o.call);
    for o in &hs {
        v.push(o.client as u8);
        v.push(o.cmd.opcode());
        v.push(o.resp.as_ref().map(|r| r.status as u8).unwrap_or(0xee));
    }
    for i in 0..hs.len() {
        for j in i + 1..hs.len() {
            v.push((hs[i].ret > hs[j].call) as u8);
        }
    }
    fnv(&v)
}

pub fn tags_for_pub(h: &[HOp], init: &KS) -> Vec<&'static str> {
    tags_for("", h, init)
}

fn tags_for(prop: &str, h: &[HOp], init: &KS) -> Vec<&'static str> {
    let rmw = h.iter().any(|o| matches!(o.cmd, Cmd::Store { op: op::ADD | op::REPLACE, .. } | Cmd::Concat { .. } | Cmd::Counter { .. }));
    let _ = prop;
    // an acknowledged store that is lost also refutes C01's read-your-writes clause
    let mut t = if rmw { vec!["C04", "C01"] } else { vec!["C03", "C01"] };
    // attribution to the command kinds that took part in the unexplainable history
    if h.iter().any(|o| matches!(o.cmd, Cmd::Store { op: op::ADD | op::REPLACE, .. } | Cmd::Concat { .. })) {
        t.push("C06");
    }
    if h.iter().any(|o| matches!(o.cmd, Cmd::Counter { .. })) {
        t.push("C07");
    }
    if h.iter().any(|o| matches!(o.cmd, Cmd::Delete { .. })) {
        t.push("C08");
    }
    if h.iter().any(|o| o.cas != 0) {
        t.push("C02");
    }
    if matches!(init, KS::Present { live: false, .. }) {
        t.push("C05");
    }
    // a quiet command must have the same effect as its loud twin, also under a race
    if h.iter().any(|o| o.cmd.quiet() && !matches!(o.cmd, Cmd::Get { .. })) {
        t.push("C19");
    }
    t
}

pub fn plans_for(p: &Program, events: &[(usize, &'static str)]) -> Vec<Vec<Park>> {
    let n = p.clients.len();
    let mut per: Vec<Vec<(&'static str, usize)>> = vec![vec![]; n];
    for (c, pt) in events {
        if *c < n {
            let nth = per[*c].iter().filter(|(q, _)| q == pt).count();
            per[*c].push((pt, nth));
        }
    }
    let mut plans = vec![];
    for c in 0..n {
        let others: Vec<usize> = (0..n).filter(|x| *x != c).collect();
        for (pt, nth) in &per[c] {
            plans.push(vec![Park { client: c, point: pt, nth: *nth, wait_for: others.clone() }]);
        }
    }
    plans
}

/// nested parks for three clients: `a` parks at one of its points until both others are done, `b`
/// parks at one of its points until the third client is done (so the third runs first, then `b`
/// resumes inside its window, then `a`): both release orders arise from the choice of (a, b)
pub fn plans2_for(p: &Program, events: &[(usize, &'static str)]) -> Vec<Vec<Park>> {
    let n = p.clients.len();
    if n != 3 {
        return vec![];
    }
    let singles = plans_for(p, events);
    let mut out = vec![];
    for pa in &singles {
        for pb in &singles {
            let (a, b) = (pa[0].client, pb[0].client);
            if a == b {
                continue;
            }
            let c = 3 - a - b;
            out.push(vec![
                Park { client: a, point: pa[0].point, nth: pa[0].nth, wait_for: vec![b, c] },
                Park { client: b, point: pb[0].point, nth: pb[0].nth, wait_for: vec![c] },
            ]);
        }
    }
    out
}

struct Shared {
    ev: Mutex<Evidence>,
}

fn check_history(ctx: &Ctx, sh: &Shared, p: &Program, sched_desc: String, out: &RunOut, init: &KS, local: &mut BTreeMap<String, u64>, fps: &mut Vec<u64>) {
    if let Some(msg) = &out.panicked {
        let mut e = sh.ev.lock().unwrap();
        e.violation(
            Viol::new(&["C10", "C03", "C04"], "panic", format!("panic in a concurrent command: {}", msg)),
            json!({"engine":"lin","program":format!("{:?}", p),"schedule":sched_desc}),
        );
        return;
    }
    if let Some(s) = &out.stall {
        let (sig, msg) = match s {
            Stall::Deadlock(m) => ("deadlock", m.clone()),
            Stall::Livelock(m) => ("livelock", m.clone()),
            Stall::Slow => ("slow", "no verdict".into()),
        };
        let mut e = sh.ev.lock().unwrap();
        if *s == Stall::Slow {
            e.inconclusive.push(format!("program {:?} under {} did not finish in time but threads were making progress", p.clients, sched_desc));
            return;
        }
        let h: Vec<String> = out.history.iter().map(|o| o.brief()).collect();
        e.violation(
            Viol::new(&["C16", "C14"], sig, format!("commands did not return: {}", msg)),
            json!({"engine":"lin","program":format!("{:?}", p),"schedule":sched_desc,"completed_ops":h}),
        );
        // threads are stuck: finish the process here
        let ev = std::mem::replace(&mut *e, Evidence::new(ctx, "exploration", ""));
        std::process::exit(ev.finish());
    }
    if p.policy.map(|l| l < (1 << 30)).unwrap_or(false) || out.history.iter().any(|o| matches!(o.cmd, Cmd::Flush { .. })) {
        // eviction may remove the key at any time, and a flush racing a read-modify-write is
        // outside C03/C04's quantifier: only completion is decided here (C16)
        *local.entry("completed_runs_with_eviction".into()).or_insert(0) += 1;
        if overlap_count(&out.history) > 0 {
            fps.push(canon(&out.history));
        }
        return;
    }
    let ops = key_ops(&out.history);
    *local.entry("histories_checked".into()).or_insert(0) += 1;
    *local.entry("history_ops".into()).or_insert(0) += ops.len() as u64;
    let ov = overlap_count(&ops);
    if ov > 0 {
        fps.push(canon(&ops));
        *local.entry("histories_with_overlap".into()).or_insert(0) += 1;
    }
    match linearizable(&ops, init, 1_000_000) {
        LinRes::Ok => {}
        LinRes::Budget => {
            *local.entry("checker_budget_exceeded".into()).or_insert(0) += 1;
        }
        LinRes::No { best } => {
            let mut hs: Vec<&HOp> = ops.iter().collect();
            hs.sort_by_key(|o| o.call);
            let h: Vec<String> = hs.iter().map(|o| o.brief()).collect();
            let tags = tags_for(&ctx.prop, &ops, init);
            let mut e = sh.ev.lock().unwrap();
            e.violation(
                Viol::new(&tags, "not-linearizable", format!("history has no linearization from {:?} (longest linearizable prefix {} of {} ops): {}", init, best, ops.len(), h.join(" | "))),
                json!({"engine":"lin","init":format!("{:?}",init),"program":format!("{:?}", p.clients.iter().map(|c| c.iter().map(|x| x.brief()).collect::<Vec<_>>()).collect::<Vec<_>>()),"schedule":sched_desc,"history":h,"seed":ctx.seed}),
            );
        }
    }
}

pub const RULE_LIN: &str = "a case is one concurrent program (initial key state x 2..3 clients x 1..2 commands, or one stress round of many threads) run under one schedule (gate plan parking a client at a hook/GateCache point, random jitter, or free OS scheduling); the recorded history (call/return tickets at the client boundary + quiescent read) is checked per key against the one-key sequential specification; non-trivial when >=2 operations of different clients overlapped in the recorded history; distinct by the canonical history (client, opcode, status sequence + overlap relation)";

fn alphabet(prop: &str) -> (&'static [A], Vec<Init>) {
    match prop {
        "C04" | "C01" | "C06" | "C07" | "C08" => (&ALPHA_C04, vec![Init::Absent, Init::Present, Init::Expired, Init::Counter]),
        "C05" => (&ALPHA_C05, vec![Init::Expired]),
        "C02" => (&ALPHA_C03, vec![Init::Absent, Init::Present]),
        "C16" => (&ALPHA_C16, vec![Init::Absent, Init::Present, Init::Expired, Init::Counter]),
        _ => (&ALPHA_C03, vec![Init::Absent, Init::Present, Init::Expired]),
    }
}

pub fn run(ctx: &Ctx) -> i32 {
    install_quiet_panic_hook();
    gate::install_hook();
    let (alpha, inits) = alphabet(&ctx.prop);
    let mut ev0 = Evidence::new(ctx, "exploration", RULE_LIN);
    ev0.assumptions = vec![
        "histories recorded at the client boundary (per-thread BinaryHandler over one shared MemcStore); one global atomic ticket orders call/return events".into(),
        "one-key sequential specification of DESIGN.md appendix A; time frozen during a concurrent phase".into(),
        "interleavings inside a DashMap call are reached only by OS scheduling, jitter and (thorough) Miri's scheduler".into(),
    ];
    let sh = Shared { ev: Mutex::new(ev0) };
    let miri = cfg!(miri);
    let with_policy = ctx.prop == "C16";
    // ---- enumerated 2-client programs (1 op each; thorough: up to 2 ops)
    let mut programs: Vec<Program> = vec![];
    let dummy = Setup { cur: 0, stale: 0 };
    let _ = &dummy;
    for init in &inits {
        for a in alpha.iter() {
            for b in alpha.iter() {
                let policy = if (programs.len() % 3) == 1 { Some(1u64 << 40) } else { None };
                programs.push(Program { init: *init, clients: vec![vec![sym(*a)], vec![sym(*b)]], policy });
            }
        }
    }
    let mut rng = SmallRng::seed_from_u64(ctx.case_seed("lin", 0));
    let n3 = if miri { 0 } else { ctx.n(300, 1500) };
    for _ in 0..n3 {
        let init = inits[rng.gen_range(0..inits.len())];
        let nc = rng.gen_range(2..=3);
        let clients = (0..nc).map(|_| (0..rng.gen_range(1..=2)).map(|_| sym(alpha[rng.gen_range(0..alpha.len())])).collect()).collect();
        let policy = if with_policy && rng.gen_bool(0.5) {
            Some([0u64, 30, 100, 500][rng.gen_range(0..4)])
        } else if rng.gen_bool(0.35) {
            Some(1u64 << 40) // random policy with a limit that is never reached: no eviction can explain a lost item
        } else {
            None
        };
        programs.push(Program { init, clients, policy });
    }
    if miri {
        // a seeded slice: Miri explores the interleavings inside the calls
        let take = ctx.extra.get("miri-programs").and_then(|s| s.parse().ok()).unwrap_or(6usize);
        let mut sel = vec![];
        for _ in 0..take {
            sel.push(programs[rng.gen_range(0..programs.len())].clone());
        }
        programs = sel;
    }
    let next = AtomicU64::new(0);
    let stop = AtomicBool::new(false);
    let total = programs.len() as u64;
    let workers = if miri { 1 } else { ctx.workers };
    std::thread::scope(|s| {
        for _ in 0..workers {
            s.spawn(|| {
                let mut local: BTreeMap<String, u64> = BTreeMap::new();
                let mut fps: Vec<u64> = vec![];
                let mut evals = 0u64;
                loop {
                    let i = next.fetch_add(1, Ordering::Relaxed);
                    if i >= total || stop.load(Ordering::Relaxed) {
                        break;
                    }
                    if let Some(o) = ctx.only_case {
                        if i != o {
                            continue;
                        }
                    }
                    let p0 = &programs[i as usize];
                    // resolve symbolic CAS against the set-up of each run: done inside run via `materialise`
                    // 1. sequential discovery run
                    let (pm, _) = materialise(p0);
                    let (d, ks) = run_program(&pm, &Sched::Sequential, 1);
                    evals += 1;
                    check_history(ctx, &sh, &pm, "sequential".into(), &d, &ks, &mut local, &mut fps);
                    let plans = if miri { vec![] } else { plans_for(&pm, &d.events) };
                    for (pt, n) in &d.counts {
                        *local.entry(format!("point_reached:{}", pt)).or_insert(0) += n;
                    }
                    let two = pm.clients.len() == 2 && pm.clients.iter().all(|c| c.len() == 1);
                    let mut scheds: Vec<(String, Sched)> = vec![];
                    if two || ctx.thorough() {
                        for pl in &plans {
                            scheds.push((format!("park c{} at {}#{}", pl[0].client, pl[0].point, pl[0].nth), Sched::Plan(pl.clone())));
                        }
                    } else {
                        // seeded subset of plans for the larger programs
                        let mut r2 = SmallRng::seed_from_u64(ctx.case_seed("lin-plan", i));
                        for _ in 0..3.min(plans.len()) {
                            let pl = &plans[r2.gen_range(0..plans.len())];
                            scheds.push((format!("park c{} at {}#{}", pl[0].client, pl[0].point, pl[0].nth), Sched::Plan(pl.clone())));
                        }
                    }
                    if !miri && pm.clients.len() == 3 {
                        let p2 = plans2_for(&pm, &d.events);
                        let mut r2 = SmallRng::seed_from_u64(ctx.case_seed("lin-plan2", i));
                        let take = if ctx.thorough() { 24 } else { 4 };
                        for _ in 0..take.min(p2.len()) {
                            let pl = &p2[r2.gen_range(0..p2.len())];
                            scheds.push((
                                format!("nested c{} at {}#{} / c{} at {}#{}", pl[0].client, pl[0].point, pl[0].nth, pl[1].client, pl[1].point, pl[1].nth),
                                Sched::Plan(pl.clone()),
                            ));
                        }
                    }
                    let reps = if miri { 1 } else { 2 };
                    for r in 0..reps {
                        scheds.push((format!("free#{}", r), Sched::Free));
                        scheds.push((format!("jitter#{}", r), Sched::Jitter(400, 150)));
                    }
                    for (desc, sc) in &scheds {
                        let (pm, _) = materialise(p0);
                        let (o, ks) = run_program(&pm, sc, ctx.case_seed("lin-run", i) ^ fnv(desc.as_bytes()));
                        evals += 1;
                        *local.entry("windows_hit".into()).or_insert(0) += o.hit;
                        *local.entry("windows_closed_by_lock".into()).or_insert(0) += o.closed;
                        *local.entry(format!("runs:{}", desc.split(|c| c == ' ' || c == '#').next().unwrap_or(""))).or_insert(0) += 1;
                        check_history(ctx, &sh, &pm, desc.clone(), &o, &ks, &mut local, &mut fps);
                    }
                    if i < 2 {
                        let mut e = sh.ev.lock().unwrap();
                        e.sample(json!({"program": pm.clients.iter().map(|c| c.iter().map(|x| x.brief()).collect::<Vec<_>>()).collect::<Vec<_>>(), "init": format!("{:?}", pm.init), "schedules": scheds.iter().map(|s| s.0.clone()).collect::<Vec<_>>(), "sequential_history": d.history.iter().map(|o| o.brief()).collect::<Vec<_>>()}));
                    }
                }
                let mut e = sh.ev.lock().unwrap();
                e.evaluations += evals;
                e.merge_counters(&local);
                for f in fps {
                    e.nontrivial.insert(f);
                }
            });
        }
    });
    // ---- stress rounds
    if !miri || ctx.extra.contains_key("miri-stress") {
        stress(ctx, &sh, alpha);
    }
    // ---- long free-running hammering (completion only): windows of a few instructions, e.g. inside the
    // policy's atomic accounting, are only met by sheer volume
    if ctx.prop == "C16" && !miri {
        hammer(ctx, &sh);
    }
    // ---- version freshness of CAS values under traffic on other keys
    if matches!(ctx.prop.as_str(), "C03" | "C01" | "C02") {
        cas_versions(ctx, &sh);
    }
    // ---- two commands released together, tens of thousands of times, with the alignment swept
    if matches!(ctx.prop.as_str(), "C01" | "C03" | "C04" | "C02" | "C08" | "C19" | "C06" | "C07") && !miri {
        race_sweep(ctx, &sh);
    }
    // ---- commands that are refused have no effect a concurrent reader could see
    if matches!(ctx.prop.as_str(), "C01" | "C02" | "C06" | "C08" | "C03") && !miri {
        refused_phase(ctx, &sh);
    }
    // ---- present keys stay present while whole-store operations hold the map's locks for long
    if matches!(ctx.prop.as_str(), "C06" | "C04" | "C08") && !miri {
        long_holder_phase(ctx, &sh);
    }
    let ev = sh.ev.into_inner().unwrap();
    ev.finish()
}

/// programs are built from symbolic ops; `sym` keeps the op symbolic by encoding it in a Cmd::Unimpl marker
fn sym(a: A) -> Cmd {
    Cmd::Unimpl(0x80 + a as u8)
}

fn unsym(c: &Cmd) -> Option<A> {
    const ALL: [A; 19] = [
        A::Get,
        A::Set,
        A::SetCur,
        A::SetStale,
        A::Del,
        A::DelCur,
        A::Add,
        A::Replace,
        A::Append,
        A::Prepend,
        A::Incr,
        A::Decr,
        A::FlushNow,
        A::FlushLater,
        A::SetOther,
        A::GetOther,
        A::SetTtl,
        A::SetCurTtl,
        A::SetMax,
    ];
    match c {
        Cmd::Unimpl(x) if *x >= 0x80 => ALL.get((*x - 0x80) as usize).copied(),
        _ => None,
    }
}

/// The CAS tokens of the set-up are deterministic for a given initial state
/// (fresh store, same set-up commands), so symbolic ops can be made concrete
/// before the run.
fn materialise(p: &Program) -> (Program, Setup) {
    let (_, su, _) = build_world(p.init, p.policy);
    let clients = p
        .clients
        .iter()
        .enumerate()
        .map(|(ci, ops)| ops.iter().enumerate().map(|(oi, c)| unsym(c).map(|a| concrete(a, ci, oi, &su)).unwrap_or_else(|| c.clone())).collect())
        .collect();
    (Program { init: p.init, clients, policy: p.policy }, su)
}

fn hammer(ctx: &Ctx, sh: &Shared) {
    let per_thread = ctx.n(15_000, 150_000);
    for (ci, policy) in [Some(1u64 << 40), None, Some(2000), Some(0)].into_iter().enumerate() {
        let timer = VirtualTimer::new(100);
        let inner = Arc::new(MemoryStore::new(timer.clone()));
        let (pol, top): (Option<Arc<RandomPolicy>>, Arc<dyn Cache + Send + Sync>) = match policy {
            None => (None, inner.clone()),
            Some(l) => {
                let p = Arc::new(RandomPolicy::new(inner.clone(), l));
                (Some(p.clone()), p)
            }
        };
        let stack = Stack::with_top(timer.clone(), inner, pol, top);
        let nthreads = 8usize;
        let progress: Arc<Vec<AtomicU64>> = Arc::new((0..nthreads).map(|_| AtomicU64::new(0)).collect());
        let tids: Arc<Mutex<Vec<i32>>> = Arc::new(Mutex::new(vec![]));
        let done = Arc::new(AtomicU64::new(0));
        let mut hs = vec![];
        for t in 0..nthreads {
            let (memc, progress, tids, done) = (stack.memc.clone(), progress.clone(), tids.clone(), done.clone());
            let seed = ctx.case_seed("hammer", (ci * 100 + t) as u64);
            let timer = timer.clone();
            hs.push(std::thread::spawn(move || {
                tids.lock().unwrap().push(gate::gettid());
                let mut rng = SmallRng::seed_from_u64(seed);
                let mut conn = Conn::new(memc, 1 << 20);
                let keys: Vec<Vec<u8>> = (0..4).map(|i| format!("h{}", i).into_bytes()).collect();
                for i in 0..per_thread {
                    let k = &keys[rng.gen_range(0..keys.len())];
                    let f = match rng.gen_range(0..20) {
                        0..=5 => wire::store(op::SET, k, b"12", 0, if rng.gen_bool(0.1) { 1 } else { 0 }, i as u32, 0),
                        6..=9 => wire::delete(op::DELETE, k, i as u32, 0),
                        10..=12 => wire::get(op::GET, k, i as u32),
                        13 | 14 => wire::counter(op::INCR, k, 1, 5, 0, i as u32, 0),
                        15 => wire::concat(op::APPEND, k, b"1", i as u32, 0),
                        16 => wire::store(op::ADD, k, b"7", 0, 0, i as u32, 0),
                        17 => wire::store(op::REPLACE, k, b"8", 0, 0, i as u32, 0),
                        18 => {
                            if rng.gen_bool(0.02) {
                                timer.advance(1);
                            }
                            wire::get(op::GETK, k, i as u32)
                        }
                        _ => {
                            if rng.gen_bool(0.05) {
                                wire::flush(op::FLUSH, if rng.gen_bool(0.5) { None } else { Some(2) }, i as u32)
                            } else {
                                wire::simple(op::NOOP, i as u32)
                            }
                        }
                    };
                    let _ = conn.feed(&f.encode());
                    progress[t].fetch_add(1, Ordering::Relaxed);
                }
                done.fetch_add(1, Ordering::SeqCst);
            }));
        }
        let total = |p: &Vec<AtomicU64>| p.iter().map(|x| x.load(Ordering::Relaxed)).sum::<u64>();
        let mut last = (0u64, Instant::now());
        let t0 = Instant::now();
        loop {
            if done.load(Ordering::SeqCst) as usize == nthreads {
                break;
            }
            std::thread::sleep(Duration::from_millis(100));
            let now = total(&progress);
            if now != last.0 {
                last = (now, Instant::now());
            }
            // some threads may be stuck while others still run: look at each thread's own counter
            let stuck = last.1.elapsed() > Duration::from_secs(8) || t0.elapsed() > Duration::from_secs(600);
            let per: Vec<u64> = progress.iter().map(|x| x.load(Ordering::Relaxed)).collect();
            if stuck || (t0.elapsed() > Duration::from_secs(20) && per.iter().any(|p| *p == 0)) {
                let t = tids.lock().unwrap().clone();
                let pr = progress.clone();
                let v = gate::classify_stall(&t, &move || pr.iter().map(|x| x.load(Ordering::Relaxed)).sum::<u64>(), 15);
                let (sig, msg) = match v {
                    Stall::Deadlock(m) => ("deadlock", m),
                    Stall::Livelock(m) => ("livelock", m),
                    Stall::Slow => {
                        if t0.elapsed() > Duration::from_secs(600) {
                            sh.ev.lock().unwrap().inconclusive.push("hammer phase did not finish in 10 min but was making progress".into());
                            return;
                        }
                        continue;
                    }
                };
                let mut e = sh.ev.lock().unwrap();
                e.violation(
                    Viol::new(&["C16"], sig, format!("hammering 4 keys with 8 threads (policy {:?}): commands stopped returning after {:?} operations per thread: {}", policy, per, msg)),
                    json!({"engine":"lin-hammer","policy":format!("{:?}",policy),"operations_completed_per_thread":per}),
                );
                let ev = std::mem::replace(&mut *e, Evidence::new(ctx, "exploration", ""));
                std::process::exit(ev.finish());
            }
        }
        for h in hs {
            let _ = h.join();
        }
        let mut e = sh.ev.lock().unwrap();
        e.evaluations += 1;
        e.count("hammer:operations", total(&progress));
        e.count(&format!("hammer:phase_completed:policy={:?}", policy), 1);
        e.nontrivial.insert(fnv(format!("hammer:{:?}", policy).as_bytes()));
    }
}

// ---------------------------------------------------------------------------
// stress rounds with conservation monitors

/// A few writers each own one key and store value after value on it, one command after the other, while other
/// threads store to other keys as fast as they can. One-at-a-time semantics make the CAS of an item the name of
/// exactly one store: a CAS handed out for a key must never have been handed out for an earlier content of that
/// key, a CAS-store carrying the CAS of an overwritten content must be refused, and a get returns the content
/// and CAS of the writer's last acknowledged store (the writer is the key's only client).
fn cas_versions(ctx: &Ctx, sh: &Shared) {
    let miri = cfg!(miri);
    let per_writer = if miri { 40 } else { ctx.n(30_000, 300_000) };
    let (writers, noise) = if miri { (1usize, 2usize) } else { (4usize, 20usize) };
    let t0 = Instant::now();
    let cap = Duration::from_secs(if ctx.thorough() { 40 } else { 8 });
    for policy in [None, Some(1u64 << 40)] {
        let timer = VirtualTimer::new(100);
        let inner = Arc::new(MemoryStore::new(timer.clone()));
        let (pol, top): (Option<Arc<RandomPolicy>>, Arc<dyn Cache + Send + Sync>) = match policy {
            None => (None, inner.clone()),
            Some(l) => {
                let p = Arc::new(RandomPolicy::new(inner.clone(), l));
                (Some(p.clone()), p)
            }
        };
        let stack = Stack::with_top(timer.clone(), inner, pol, top);
        let stop = Arc::new(AtomicBool::new(false));
        let noise_ops = Arc::new(AtomicU64::new(0));
        let mut hs = vec![];
        for n in 0..noise {
            let (memc, stop, noise_ops) = (stack.memc.clone(), stop.clone(), noise_ops.clone());
            hs.push(std::thread::spawn(move || {
                let mut conn = Conn::new(memc, 1 << 20);
                let keys: Vec<Vec<u8>> = (0..3).map(|i| format!("noise{}-{}", n, i).into_bytes()).collect();
                let mut i = 0u32;
                while !stop.load(Ordering::Relaxed) {
                    let k = &keys[(i % 3) as usize];
                    let f = if i % 7 == 3 { wire::concat(op::APPEND, k, b"x", i, 0) } else { wire::store(op::SET, k, b"n", 0, 0, i, 0) };
                    let _ = conn.feed(&f.encode());
                    i = i.wrapping_add(1);
                    if miri && i > 40 {
                        break;
                    }
                }
                noise_ops.fetch_add(i as u64, Ordering::Relaxed);
            }));
        }
        let found: Arc<Mutex<Vec<(Viol, serde_json::Value)>>> = Arc::new(Mutex::new(vec![]));
        let stats: Arc<Mutex<BTreeMap<String, u64>>> = Arc::new(Mutex::new(BTreeMap::new()));
        let mut ws = vec![];
        for w in 0..writers {
            let (memc, found, stats) = (stack.memc.clone(), found.clone(), stats.clone());
            let seed = ctx.case_seed("casver", w as u64);
            ws.push(std::thread::spawn(move || {
                let mut rng = SmallRng::seed_from_u64(seed);
                let mut conn = Conn::new(memc, 1 << 20);
                let key = format!("writer{}", w).into_bytes();
                let mut seen: std::collections::HashMap<u64, u64> = std::collections::HashMap::new();
                let mut order: Vec<u64> = vec![];
                let (mut stores, mut stale_refused, mut gets) = (0u64, 0u64, 0u64);
                let one = |conn: &mut Conn, f: wire::Frame| -> Option<Resp> {
                    let o = conn.feed(&f.encode());
                    wire::parse_all(&o.bytes).ok().and_then(|mut v| if v.len() == 1 { v.pop() } else { None })
                };
                let report = |sig: &str, msg: String, found: &Mutex<Vec<(Viol, serde_json::Value)>>| {
                    found.lock().unwrap().push((
                        Viol::new(&["C03", "C01"], sig, msg.clone()),
                        json!({"engine":"lin-cas-versions","policy":format!("{:?}",policy),"writer":w,"writers":writers,"noise_threads":noise,"detail":msg}),
                    ));
                };
                for i in 0..per_writer {
                    if t0.elapsed() > cap {
                        break;
                    }
                    let val = format!("v{}", i).into_bytes();
                    let r = match one(&mut conn, wire::store(op::SET, &key, &val, 0, 0, i as u32, 0)) {
                        Some(r) if r.status == st::OK => r,
                        other => {
                            report("casver-set-failed", format!("plain set #{} of the key's only writer answered {:?}", i, other.map(|r| r.brief())), &found);
                            return;
                        }
                    };
                    stores += 1;
                    if let Some(prev) = seen.insert(r.cas, i) {
                        report(
                            "cas-reissued",
                            format!("store #{} of key writer{} was acknowledged with CAS {}, the CAS store #{} of the same key (a different content) had been acknowledged with; {} noise threads were storing to other keys", i, w, r.cas, prev, noise),
                            &found,
                        );
                        return;
                    }
                    order.push(r.cas);
                    if i % 8 == 5 && order.len() > 2 {
                        // a CAS-store carrying the CAS of an overwritten content
                        let back = rng.gen_range(2..=order.len().min(40));
                        let stale = order[order.len() - back];
                        match one(&mut conn, wire::store(op::SET, &key, b"stale", 0, 0, i as u32, stale)) {
                            Some(r) if r.status == st::EXISTS => stale_refused += 1,
                            other => {
                                report(
                                    "stale-cas-accepted",
                                    format!("CAS-store carrying CAS {} of a content overwritten {} acknowledged stores ago answered {:?} instead of Key exists", stale, back - 1, other.map(|r| r.brief())),
                                    &found,
                                );
                                return;
                            }
                        }
                    }
                    if i % 16 == 9 {
                        match one(&mut conn, wire::get(op::GET, &key, i as u32)) {
                            Some(g) if g.status == st::OK && g.value == val && g.cas == r.cas => gets += 1,
                            other => {
                                report("casver-get", format!("get after acknowledged store #{} (CAS {}) of the key's only writer answered {:?}", i, r.cas, other.map(|r| r.brief())), &found);
                                return;
                            }
                        }
                    }
                }
                let mut s = stats.lock().unwrap();
                *s.entry("cas_versions:stores_with_fresh_cas".into()).or_insert(0) += stores;
                *s.entry("cas_versions:stale_cas_stores_refused".into()).or_insert(0) += stale_refused;
                *s.entry("cas_versions:gets_matching_last_store".into()).or_insert(0) += gets;
            }));
        }
        for h in ws {
            let _ = h.join();
        }
        stop.store(true, Ordering::Relaxed);
        for h in hs {
            let _ = h.join();
        }
        let mut e = sh.ev.lock().unwrap();
        e.evaluations += 1;
        let mut st = stats.lock().unwrap().clone();
        st.insert("cas_versions:noise_stores_on_other_keys".into(), noise_ops.load(Ordering::Relaxed));
        e.merge_counters(&st);
        for (v, d) in found.lock().unwrap().drain(..) {
            e.violation(v, d);
        }
    }
}

/// A store crowded with a few hundred thousand items, one connection issuing delayed flushes with a far-future
/// deadline (each walks the whole map under its shard locks and, the clock being frozen, removes nothing), and
/// other connections working on a handful of *present* keys: add must answer Key exists, replace / append /
/// prepend (with the same content / empty data) must succeed, get must hit with the original bytes. A look-up that
/// gives up or misses while the shard is held shows as add overwriting a present item or replace/append/get
/// reporting Not found.
/// Windows that no hook point marks (inside one `Cache` call, say between a look-up and the removal that is
/// meant to go with it) are a few instructions wide: a program run that spawns its threads per history meets
/// them by luck. Here two persistent threads spin on a round counter, are released together, each after a
/// seeded number of spin iterations (the alignment of the two commands is swept over a few hundred nanoseconds),
/// and run one command each against a key the coordinator has just set up; the coordinator reads the key back.
/// Every round's three-operation history is checked against the one-key specification.
fn race_sweep(ctx: &Ctx, sh: &Shared) {
    #[derive(Clone, Copy, Debug)]
    enum R {
        DelCur,
        Del,
        Set,
        SetCur,
        Get,
        Append,
        Incr,
        Add,
        Replace,
        DelStale,
        SetQ,
        AddQ,
        DelQ,
        AppendQ,
    }
    // (initial state present?, expired?, op of thread A, op of thread B)
    let c03: Vec<(bool, bool, R, R)> = vec![
        (true, false, R::DelCur, R::Set),
        (true, false, R::DelCur, R::SetCur),
        (true, false, R::SetCur, R::SetCur),
        (true, false, R::Del, R::SetCur),
        (true, false, R::DelCur, R::DelCur),
        (true, true, R::Get, R::Set),
        (true, true, R::Get, R::Get),
        (false, false, R::SetCur, R::Set),
    ];
    let c04: Vec<(bool, bool, R, R)> = vec![
        (true, false, R::Append, R::Del),
        (true, false, R::Append, R::Append),
        (true, false, R::Incr, R::Incr),
        (false, false, R::Add, R::Add),
        (false, false, R::Incr, R::Incr),
        (true, false, R::Replace, R::Del),
        (true, false, R::Append, R::Set),
        (true, true, R::Add, R::Add),
    ];
    // a command that is refused must not disturb a concurrent reader; quiet variants take the same locks
    let c01: Vec<(bool, bool, R, R)> = vec![
        (true, false, R::DelStale, R::Get),
        (true, false, R::Set, R::Get),
        (true, false, R::Replace, R::Get),
        (true, false, R::Append, R::Get),
        (true, false, R::DelStale, R::Append),
    ];
    let c19: Vec<(bool, bool, R, R)> = vec![
        (true, false, R::SetQ, R::Append),
        (true, false, R::SetQ, R::Incr),
        (false, false, R::AddQ, R::AddQ),
        (true, false, R::DelQ, R::Append),
        (true, false, R::AppendQ, R::Append),
        (true, false, R::SetQ, R::Replace),
        (false, false, R::SetQ, R::Add),
    ];
    let pairs = match ctx.prop.as_str() {
        "C04" => c04,
        "C01" => {
            let mut v = c01;
            v.extend(c03);
            v
        }
        "C19" => c19,
        "C03" | "C02" => {
            let mut v = c03;
            v.extend(c01);
            v
        }
        _ => {
            let mut v = c03;
            v.extend(c04);
            v.extend(c01);
            v
        }
    };
    let rounds = ctx.n(25_000, 250_000);
    let cap = Duration::from_secs(if ctx.thorough() { 30 } else { 6 });
    let t0 = Instant::now();
    let parallel = (ctx.workers / 3).max(1);
    // every pair gets the same share of the time budget
    let per_pair_cap = cap.mul_f64((parallel as f64 / pairs.len() as f64).min(1.0));
    let _ = t0;
    let next = AtomicU64::new(0);
    std::thread::scope(|scope| {
        for _ in 0..parallel {
            scope.spawn(|| loop {
                let pi = next.fetch_add(1, Ordering::Relaxed) as usize;
                if pi >= pairs.len() {
                    break;
                }
                let (present, expired, ra, rb) = pairs[pi];
                let policy = if pi % 2 == 1 || expired { Some(1u64 << 40) } else { None };
                let timer = VirtualTimer::new(1000);
                let inner = Arc::new(MemoryStore::new(timer.clone()));
                let (pol, top): (Option<Arc<RandomPolicy>>, Arc<dyn Cache + Send + Sync>) = match policy {
                    None => (None, inner.clone()),
                    Some(l) => {
                        let p = Arc::new(RandomPolicy::new(inner.clone(), l));
                        (Some(p.clone()), p)
                    }
                };
                // every other pair runs after a fault: one store panics inside the cache while MemcStore holds
                // the key's lock (a poisoned lock must still serialise the commands that follow)
                let with_fault = pi % 2 == 0;
                let top: Arc<dyn Cache + Send + Sync> = if with_fault { Arc::new(GateCache { inner: top }) } else { top };
                let stack = Stack::with_top(timer.clone(), inner, pol, top);
                if with_fault {
                    let memc = stack.memc.clone();
                    let _ = std::panic::catch_unwind(std::panic::AssertUnwindSafe(move || {
                        let mut conn = Conn::new(memc, 1 << 20);
                        gate::INJECT_PANIC_IN_SET.with(|f| f.set(true));
                        let _ = conn.feed(&wire::store(op::SET, b"k0", b"boom", 0, 0, 1, 0).encode());
                    }));
                    gate::INJECT_PANIC_IN_SET.with(|f| f.set(false));
                }
                let go = Arc::new(AtomicU64::new(0));
                let done = Arc::new(AtomicU64::new(0));
                let ticket = Arc::new(AtomicU64::new(1));
                let cur_cas = Arc::new(AtomicU64::new(0));
                let quit = Arc::new(AtomicBool::new(false));
                type Slot3 = Arc<Mutex<Option<(Cmd, u64, u64, u64, Option<Resp>)>>>;
                let results: Vec<Slot3> = vec![Arc::new(Mutex::new(None)), Arc::new(Mutex::new(None))];
                let key = b"k0".to_vec();
                let make = move |r: R, c0: u64, who: usize, round: u64| -> (Cmd, u64) {
                    let val = format!("{}{}", if who == 0 { "A" } else { "B" }, round % 10).into_bytes();
                    match r {
                        R::DelCur => (Cmd::Delete { key: 0, cas: CasArg::Raw(c0), quiet: false }, c0),
                        R::Del => (Cmd::Delete { key: 0, cas: CasArg::Zero, quiet: false }, 0),
                        R::Set => (Cmd::Store { op: op::SET, key: 0, value: val, flags: 3, ttl: 0, cas: CasArg::Zero, quiet: false }, 0),
                        R::SetCur => (Cmd::Store { op: op::SET, key: 0, value: val, flags: 4, ttl: 0, cas: CasArg::Raw(c0.max(1)), quiet: false }, c0.max(1)),
                        R::Get => (Cmd::Get { key: 0, k: false, quiet: false }, 0),
                        R::Append => (Cmd::Concat { append: true, key: 0, value: val, cas: CasArg::Zero, quiet: false }, 0),
                        R::Incr => (Cmd::Counter { incr: true, key: 0, delta: 1 + who as u64, initial: 50, exp: 0, cas: CasArg::Zero, quiet: false }, 0),
                        R::Add => (Cmd::Store { op: op::ADD, key: 0, value: val, flags: 5, ttl: 0, cas: CasArg::Zero, quiet: false }, 0),
                        R::Replace => (Cmd::Store { op: op::REPLACE, key: 0, value: val, flags: 6, ttl: 0, cas: CasArg::Zero, quiet: false }, 0),
                        R::DelStale => (Cmd::Delete { key: 0, cas: CasArg::Raw(c0 ^ 0x5555_0000), quiet: false }, c0 ^ 0x5555_0000),
                        R::SetQ => (Cmd::Store { op: op::SET, key: 0, value: val, flags: 3, ttl: 0, cas: CasArg::Zero, quiet: true }, 0),
                        R::AddQ => (Cmd::Store { op: op::ADD, key: 0, value: val, flags: 5, ttl: 0, cas: CasArg::Zero, quiet: true }, 0),
                        R::DelQ => (Cmd::Delete { key: 0, cas: CasArg::Zero, quiet: true }, 0),
                        R::AppendQ => (Cmd::Concat { append: true, key: 0, value: val, cas: CasArg::Zero, quiet: true }, 0),
                    }
                };
                let mut hs = vec![];
                for who in 0..2usize {
                    let (memc, go, done, ticket, cur_cas, quit, slot, key) =
                        (stack.memc.clone(), go.clone(), done.clone(), ticket.clone(), cur_cas.clone(), quit.clone(), results[who].clone(), key.clone());
                    let r = if who == 0 { ra } else { rb };
                    let seed = ctx.case_seed("race-sweep", (pi * 2 + who) as u64);
                    hs.push(std::thread::spawn(move || {
                        let mut rng = SmallRng::seed_from_u64(seed);
                        let mut conn = Conn::new(memc, 1 << 20);
                        let keys = vec![key];
                        let mut round = 1u64;
                        loop {
                            while go.load(Ordering::Acquire) < round {
                                if quit.load(Ordering::Relaxed) {
                                    return;
                                }
                                std::hint::spin_loop();
                            }
                            if quit.load(Ordering::Relaxed) {
                                return;
                            }
                            let (cmd, cas) = make(r, cur_cas.load(Ordering::Acquire), who, round);
                            let bytes = cmd.frame(&keys, cas, round as u32).encode();
                            for _ in 0..rng.gen_range(0..300u32) {
                                std::hint::spin_loop();
                            }
                            let call = ticket.fetch_add(1, Ordering::SeqCst);
                            let out = conn.feed(&bytes);
                            let ret = ticket.fetch_add(1, Ordering::SeqCst);
                            let resp = wire::parse_all(&out.bytes).ok().and_then(|mut v| v.pop());
                            *slot.lock().unwrap() = Some((cmd, cas, call, ret, resp));
                            done.fetch_add(1, Ordering::Release);
                            round += 1;
                        }
                    }));
                }
                let mut conn = Conn::new(stack.memc.clone(), 1 << 20);
                let keys = vec![key.clone()];
                let mut local: BTreeMap<String, u64> = BTreeMap::new();
                let mut fps: Vec<u64> = vec![];
                let mut overlapped = 0u64;
                // a bystander key that no command of the sweep touches: whatever the two commands do to k0 (and
                // to the store's bookkeeping), it must still be there after every round
                let _ = conn.feed(&wire::store(op::SET, b"bystander", b"untouched", 1, 0, 0, 0).encode());
                let pair_t0 = Instant::now();
                for round in 1..=rounds {
                    if pair_t0.elapsed() > per_pair_cap {
                        break;
                    }
                    // set-up by the coordinator, nothing else running
                    let _ = conn.feed(&wire::delete(op::DELETE, &key, 0, 0).encode());
                    let init = if present {
                        let numeric = matches!(ra, R::Incr) || matches!(rb, R::Incr);
                        // (an expired item is made large: bookkeeping released twice for it must not go unnoticed
                        // behind the other records' share)
                        let v: Vec<u8> = if numeric { b"10".to_vec() } else if expired { vec![b'o'; 3000] } else { b"old".to_vec() };
                        let o = conn.feed(&wire::store(op::SET, &key, &v, 7, if expired { 1 } else { 0 }, 0, 0).encode());
                        let c0 = wire::parse_all(&o.bytes).ok().and_then(|mut v| v.pop()).map(|r| r.cas).unwrap_or(0);
                        cur_cas.store(c0, Ordering::Release);
                        if expired {
                            timer.advance(2);
                        }
                        KS::Present { v, f: Some(7), c: c0, live: !expired, cl: false }
                    } else {
                        cur_cas.store(round + 1_000_000, Ordering::Release);
                        KS::Absent
                    };
                    done.store(0, Ordering::Release);
                    go.store(round, Ordering::Release);
                    let w0 = Instant::now();
                    while done.load(Ordering::Acquire) < 2 {
                        std::hint::spin_loop();
                        if w0.elapsed() > Duration::from_secs(20) {
                            // a command that never returns is C16's business; stop the sweep
                            quit.store(true, Ordering::Relaxed);
                            sh.ev.lock().unwrap().inconclusive.push(format!("race sweep {:?}/{:?}: a command did not return within 20 s", ra, rb));
                            return;
                        }
                    }
                    let fin_call = ticket.fetch_add(1, Ordering::SeqCst);
                    let o = conn.feed(&wire::get(op::GET, &key, 9).encode());
                    let fin_ret = ticket.fetch_add(1, Ordering::SeqCst);
                    let fin = wire::parse_all(&o.bytes).ok().and_then(|mut v| v.pop());
                    let mut ops: Vec<HOp> = vec![];
                    for (who, slot) in results.iter().enumerate() {
                        if let Some((cmd, cas, call, ret, resp)) = slot.lock().unwrap().take() {
                            ops.push(HOp { client: who, cmd, cas, call, ret, resp });
                        }
                    }
                    ops.push(HOp { client: 2, cmd: Cmd::Get { key: 0, k: false, quiet: false }, cas: 0, call: fin_call, ret: fin_ret, resp: fin });
                    let _ = &keys;
                    if ops.len() == 3 && ops[0].call < ops[1].ret && ops[1].call < ops[0].ret {
                        overlapped += 1;
                    }
                    *local.entry("race_sweep:rounds".into()).or_insert(0) += 1;
                    let by = conn.feed(&wire::get(op::GET, b"bystander", 8).encode());
                    let by_ok = wire::parse_all(&by.bytes).ok().and_then(|mut v| v.pop()).map(|r| r.status == st::OK && r.value == b"untouched").unwrap_or(false);
                    if !by_ok {
                        sh.ev.lock().unwrap().violation(
                            Viol::new(&["C01", "C15", "C14"], "bystander-lost", format!("race sweep round {} ({:?} against {:?} on k0, policy {:?}, initial state {:?}): an item under another key, which no command touched, is gone (or changed)", round, ra, rb, policy, init)),
                            json!({"engine":"lin-race-sweep","pair":format!("{:?}/{:?}",ra,rb),"round":round}),
                        );
                        break;
                    }
                    if let LinRes::No { best } = linearizable(&ops, &init, 100_000) {
                        let mut hsx: Vec<&HOp> = ops.iter().collect();
                        hsx.sort_by_key(|o| o.call);
                        let h: Vec<String> = hsx.iter().map(|o| o.brief()).collect();
                        let tags = tags_for(&ctx.prop, &ops, &init);
                        sh.ev.lock().unwrap().violation(
                            Viol::new(&tags, "not-linearizable", format!("race sweep round {} ({:?} against {:?}, policy {:?}): history has no linearization from {:?} (longest linearizable prefix {} of 3 ops): {}", round, ra, rb, policy, init, best, h.join(" | "))),
                            json!({"engine":"lin-race-sweep","pair":format!("{:?}/{:?}",ra,rb),"round":round,"init":format!("{:?}",init),"history":h}),
                        );
                        break;
                    }
                }
                quit.store(true, Ordering::Relaxed);
                go.store(u64::MAX, Ordering::Release);
                for h in hs {
                    let _ = h.join();
                }
                *local.entry("race_sweep:rounds_with_overlapping_commands".into()).or_insert(0) += overlapped;
                if with_fault {
                    *local.entry("race_sweep:pairs_run_after_an_injected_panic_under_the_key_lock".into()).or_insert(0) += 1;
                }
                if overlapped > 0 {
                    fps.push(fnv(format!("race-sweep:{:?}:{:?}:{}:{}", ra, rb, present, expired).as_bytes()));
                }
                let mut e = sh.ev.lock().unwrap();
                e.evaluations += 1;
                e.merge_counters(&local);
                for f in fps {
                    e.nontrivial.insert(f);
                }
            });
        }
    });
}

/// A present item and connections that keep sending commands the server has to refuse - delete and set carrying
/// a stale CAS, add on the present key, incr on its non-numeric value, append carrying a stale CAS - while
/// readers get the key as fast as they can. A refused command "leaves the stored item byte-for-byte unchanged":
/// every single get must hit and return the same value, flags and CAS.
fn refused_phase(ctx: &Ctx, sh: &Shared) {
    let cap = Duration::from_millis(if ctx.thorough() { 8000 } else { 1500 });
    for policy in [None, Some(1u64 << 40)] {
        let timer = VirtualTimer::new(100);
        let inner = Arc::new(MemoryStore::new(timer.clone()));
        let (pol, top): (Option<Arc<RandomPolicy>>, Arc<dyn Cache + Send + Sync>) = match policy {
            None => (None, inner.clone()),
            Some(l) => {
                let p = Arc::new(RandomPolicy::new(inner.clone(), l));
                (Some(p.clone()), p)
            }
        };
        let stack = Stack::with_top(timer.clone(), inner, pol, top);
        let key = b"steady".to_vec();
        let mut conn = Conn::new(stack.memc.clone(), 1 << 20);
        let o = conn.feed(&wire::store(op::SET, &key, b"steady-value", 0x77, 0, 1, 0).encode());
        let c0 = match wire::parse_all(&o.bytes).ok().and_then(|mut v| v.pop()) {
            Some(r) if r.status == st::OK => r.cas,
            _ => continue,
        };
        let stop = Arc::new(AtomicBool::new(false));
        let refused = Arc::new(AtomicU64::new(0));
        let odd: Arc<Mutex<Vec<String>>> = Arc::new(Mutex::new(vec![]));
        let mut hs = vec![];
        for k in 0..5usize {
            let (memc, stop, refused, odd, key) = (stack.memc.clone(), stop.clone(), refused.clone(), odd.clone(), key.clone());
            hs.push(std::thread::spawn(move || {
                let mut conn = Conn::new(memc, 1 << 20);
                let stale = c0 ^ 0x0101_0000;
                let (f, want, what): (wire::Frame, u16, &str) = match k {
                    0 => (wire::delete(op::DELETE, &key, 1, stale), st::EXISTS, "delete carrying a stale CAS"),
                    1 => (wire::store(op::SET, &key, b"never", 1, 0, 1, stale), st::EXISTS, "set carrying a stale CAS"),
                    2 => (wire::store(op::ADD, &key, b"never", 1, 0, 1, 0), st::EXISTS, "add on the present key"),
                    3 => (wire::counter(op::INCR, &key, 1, 1, 0, 1, 0), st::NON_NUMERIC, "incr on its non-numeric value"),
                    _ => (wire::concat(op::APPEND, &key, b"never", 1, stale), st::EXISTS, "append carrying a stale CAS"),
                };
                let bytes = f.encode();
                let mut n = 0u64;
                while !stop.load(Ordering::Relaxed) {
                    let o = conn.feed(&bytes);
                    match wire::parse_all(&o.bytes).ok().and_then(|mut v| v.pop()) {
                        Some(r) if r.status == want => n += 1,
                        other => {
                            odd.lock().unwrap().push(format!("{} answered {:?} instead of {:#x}", what, other.map(|r| r.brief()), want));
                            break;
                        }
                    }
                }
                refused.fetch_add(n, Ordering::Relaxed);
            }));
        }
        let t0 = Instant::now();
        let hits = Arc::new(AtomicU64::new(0));
        let bad: Arc<Mutex<Vec<String>>> = Arc::new(Mutex::new(vec![]));
        let mut rs = vec![];
        for _ in 0..3 {
            let (memc, key, hits, bad) = (stack.memc.clone(), key.clone(), hits.clone(), bad.clone());
            rs.push(std::thread::spawn(move || {
                let mut conn = Conn::new(memc, 1 << 20);
                let g = wire::get(op::GET, &key, 2).encode();
                let mut n = 0u64;
                while t0.elapsed() < cap && bad.lock().unwrap().is_empty() {
                    let o = conn.feed(&g);
                    match wire::parse_all(&o.bytes).ok().and_then(|mut v| v.pop()) {
                        Some(r) if r.status == st::OK && r.value == b"steady-value" && r.flags() == Some(0x77) && r.cas == c0 => n += 1,
                        other => {
                            bad.lock().unwrap().push(format!("get answered {:?}", other.map(|r| r.brief())));
                            break;
                        }
                    }
                }
                hits.fetch_add(n, Ordering::Relaxed);
            }));
        }
        for h in rs {
            let _ = h.join();
        }
        stop.store(true, Ordering::Relaxed);
        for h in hs {
            let _ = h.join();
        }
        let mut e = sh.ev.lock().unwrap();
        e.evaluations += 1;
        e.count("refused:commands_refused_while_readers_ran", refused.load(Ordering::Relaxed));
        e.count("refused:gets_that_hit_the_unchanged_item", hits.load(Ordering::Relaxed));
        for m in bad.lock().unwrap().iter().take(2) {
            e.violation(
                Viol::new(&["C01", "C06", "C08", "C02", "C03"], "refused-command-visible", format!("while other connections sent commands that are refused (stale-CAS delete / set / append, add on a present key, incr on a non-numeric value; policy {:?}): {} for an item that was never changed (value \"steady-value\", flags 0x77, CAS {})", policy, m, c0)),
                json!({"engine":"lin-refused","policy":format!("{:?}",policy),"detail":m}),
            );
        }
        for m in odd.lock().unwrap().iter().take(2) {
            e.violation(Viol::new(&["C06", "C08", "C02", "C07"], "refusal-status", format!("policy {:?}: {}", policy, m)), json!({"engine":"lin-refused","detail":m}));
        }
    }
}

fn long_holder_phase(ctx: &Ctx, sh: &Shared) {
    use memcrs::cache::cache::Record;
    let crowd = ctx.n(150_000, 400_000) as usize;
    let cap = Duration::from_secs(if ctx.thorough() { 20 } else { 4 });
    let timer = VirtualTimer::new(100);
    let inner = Arc::new(MemoryStore::new(timer.clone()));
    let top: Arc<dyn Cache + Send + Sync> = inner.clone();
    let stack = Stack::with_top(timer.clone(), inner, None, top);
    for i in 0..crowd {
        let _ = stack.memc.set(bytes::Bytes::from(format!("crowd-{}", i)), Record::new(bytes::Bytes::from_static(b"c"), 0, 0, 0));
    }
    let guarded: Vec<Vec<u8>> = (0..8).map(|i| format!("guarded-{}", i).into_bytes()).collect();
    {
        let mut conn = Conn::new(stack.memc.clone(), 1 << 20);
        for g in &guarded {
            let _ = conn.feed(&wire::store(op::SET, g, b"original", 0xab, 0, 1, 0).encode());
        }
    }
    let stop = Arc::new(AtomicBool::new(false));
    let flushes = Arc::new(AtomicU64::new(0));
    let flusher = {
        let (memc, stop, flushes) = (stack.memc.clone(), stop.clone(), flushes.clone());
        std::thread::spawn(move || {
            let mut conn = Conn::new(memc, 1 << 20);
            while !stop.load(Ordering::Relaxed) {
                let _ = conn.feed(&wire::flush(op::FLUSH, Some(1_000_000), 7).encode());
                flushes.fetch_add(1, Ordering::Relaxed);
            }
        })
    };
    let t0 = Instant::now();
    let found: Arc<Mutex<Vec<String>>> = Arc::new(Mutex::new(vec![]));
    let ops = Arc::new(AtomicU64::new(0));
    let mut hs = vec![];
    for c in 0..4usize {
        let (memc, guarded, found, ops) = (stack.memc.clone(), guarded.clone(), found.clone(), ops.clone());
        hs.push(std::thread::spawn(move || {
            let mut conn = Conn::new(memc, 1 << 20);
            let mut i = 0u32;
            while t0.elapsed() < cap && found.lock().unwrap().is_empty() {
                let g = &guarded[(i as usize * 3 + c) % guarded.len()];
                let (f, what, want): (wire::Frame, &str, u16) = match (i + c as u32) % 5 {
                    0 => (wire::store(op::ADD, g, b"intruder", 0x11, 0, i, 0), "add on a present key", st::EXISTS),
                    1 => (wire::store(op::REPLACE, g, b"original", 0xab, 0, i, 0), "replace of a present key", st::OK),
                    2 => (wire::concat(op::APPEND, g, b"", i, 0), "append (empty data) to a present key", st::OK),
                    3 => (wire::concat(op::PREPEND, g, b"", i, 0), "prepend (empty data) to a present key", st::OK),
                    _ => (wire::get(op::GET, g, i), "get of a present key", st::OK),
                };
                let o = conn.feed(&f.encode());
                let r = wire::parse_all(&o.bytes).ok().and_then(|mut v| v.pop());
                let ok = match &r {
                    Some(r) => r.status == want && (f.opcode != op::GET || (r.value == b"original" && r.flags() == Some(0xab))),
                    None => false,
                };
                if !ok {
                    found.lock().unwrap().push(format!("{} answered {:?} (expected status {:#x}) while another connection was running delayed flushes over {} items", what, r.map(|r| r.brief()), want, crowd));
                }
                ops.fetch_add(1, Ordering::Relaxed);
                i = i.wrapping_add(1);
            }
        }));
    }
    for h in hs {
        let _ = h.join();
    }
    stop.store(true, Ordering::Relaxed);
    let _ = flusher.join();
    let mut e = sh.ev.lock().unwrap();
    e.evaluations += 1;
    e.count("long_holder:commands_on_present_keys", ops.load(Ordering::Relaxed));
    e.count("long_holder:delayed_flushes_over_the_crowded_store", flushes.load(Ordering::Relaxed));
    e.count("long_holder:items_in_store", crowd as u64);
    for m in found.lock().unwrap().iter().take(3) {
        e.violation(Viol::new(&["C06", "C04", "C08", "C01"], "present-key-not-seen", m.clone()), json!({"engine":"lin-long-holder","crowd":crowd,"detail":m}));
    }
}

fn stress(ctx: &Ctx, sh: &Shared, alpha: &[A]) {
    let rounds = ctx.n(1500, 5000);
    let next = AtomicU64::new(0);
    let deadline = if ctx.budget_s > 0 { Some(Instant::now() + Duration::from_secs(ctx.budget_s)) } else { None };
    let workers = if cfg!(miri) { 1 } else { (ctx.workers / 4).max(1) };
    std::thread::scope(|s| {
        for _ in 0..workers {
            s.spawn(|| {
                let mut local: BTreeMap<String, u64> = BTreeMap::new();
                let mut fps: Vec<u64> = vec![];
                let mut evals = 0u64;
                loop {
                    let r = next.fetch_add(1, Ordering::Relaxed);
                    let over = match deadline {
                        Some(d) => Instant::now() > d && r >= rounds,
                        None => r >= rounds,
                    };
                    if over {
                        break;
                    }
                    let mut rng = SmallRng::seed_from_u64(ctx.case_seed("stress", r));
                    let kind = r % 5;
                    let nthreads = if cfg!(miri) { 3 } else { [4usize, 8, 8, 12, 6][rng.gen_range(0..5)] };
                    // conservation-style rounds use one op kind, generic rounds mix the alphabet
                    let (init, clients): (Init, Vec<Vec<Cmd>>) = match (ctx.prop.as_str(), kind) {
                        ("C04" | "C01" | "C06" | "C07" | "C08", 0) => (Init::Absent, (0..nthreads).map(|_| vec![sym(A::Add)]).collect()),
                        ("C04" | "C01" | "C06" | "C07" | "C08", 1) => (Init::Counter, (0..nthreads).map(|_| vec![sym(A::Incr), sym(A::Incr)]).collect()),
                        ("C04" | "C01" | "C06" | "C07" | "C08", 2) => (Init::Present, (0..nthreads).map(|_| vec![sym(A::Append)]).collect()),
                        ("C04" | "C01" | "C06" | "C07" | "C08", 3) => (
                            Init::Present,
                            (0..nthreads).map(|i| vec![sym([A::Del, A::Replace, A::Append, A::Incr][i % 4])]).collect(),
                        ),
                        ("C03", 0) => (Init::Present, (0..nthreads).map(|_| vec![sym(A::SetCur)]).collect()),
                        ("C03" | "C02", 2) => (Init::Absent, (0..nthreads).map(|_| vec![sym(A::SetMax)]).collect()),
                        ("C03" | "C02", 3) => (Init::Absent, (0..nthreads).map(|_| vec![sym(A::SetStale)]).collect()),
                        ("C03", 1) => (Init::Expired, (0..nthreads).map(|i| vec![sym(if i % 2 == 0 { A::Get } else { A::Set })]).collect()),
                        _ => {
                            let inits = [Init::Absent, Init::Present, Init::Expired, Init::Counter];
                            (
                                inits[rng.gen_range(0..if ctx.prop == "C03" { 3 } else { 4 })],
                                (0..nthreads).map(|_| (0..rng.gen_range(1..=2)).map(|_| sym(alpha[rng.gen_range(0..alpha.len())])).collect()).collect(),
                            )
                        }
                    };
                    let policy = if ctx.prop == "C16" && rng.gen_bool(0.6) {
                        Some([0u64, 30, 100, 600, 5000][rng.gen_range(0..5)])
                    } else if rng.gen_bool(0.3) {
                        Some(1u64 << 40)
                    } else {
                        None
                    };
                    let p0 = Program { init, clients, policy };
                    let (pm, _) = materialise(&p0);
                    let sched = if rng.gen_bool(0.5) { Sched::Free } else { Sched::Jitter(300, 60) };
                    let (o, ks) = run_program(&pm, &sched, ctx.case_seed("stress-run", r));
                    evals += 1;
                    *local.entry(format!("stress_rounds:kind{}", kind)).or_insert(0) += 1;
                    let desc = format!("stress round {} ({} threads, {:?})", r, nthreads, sched);
                    // conservation monitors
                    conservation(ctx, sh, &pm, &o, &ks, &desc, &mut local);
                    check_history(ctx, sh, &pm, desc, &o, &ks, &mut local, &mut fps);
                }
                let mut e = sh.ev.lock().unwrap();
                e.evaluations += evals;
                e.merge_counters(&local);
                for f in fps {
                    e.nontrivial.insert(f);
                }
            });
        }
    });
}

fn conservation(_ctx: &Ctx, sh: &Shared, p: &Program, o: &RunOut, init: &KS, desc: &str, local: &mut BTreeMap<String, u64>) {
    if o.stall.is_some() || o.panicked.is_some() {
        return;
    }
    let h = key_ops(&o.history);
    let hs = || h.iter().map(|x| x.brief()).collect::<Vec<_>>();
    let mut report = |tags: &[&'static str], sig: &str, msg: String| {
        let mut e = sh.ev.lock().unwrap();
        e.violation(Viol::new(tags, sig, msg), json!({"engine":"lin-stress","program":format!("{:?}",p.clients.iter().map(|c| c.iter().map(|x| x.brief()).collect::<Vec<_>>()).collect::<Vec<_>>()),"init":format!("{:?}",init),"round":desc,"history":hs()}));
    };
    // (1) at most one success per (key, CAS token): sound only while the key cannot become
    // absent in between (a CAS store on an absent key is outside any contract, L-a)
    let mut by_token: BTreeMap<u64, usize> = BTreeMap::new();
    let can_vanish = p.policy.map(|l| l < (1 << 30)).unwrap_or(false) || matches!(init, KS::Present { live: false, .. }) || h.iter().any(|x| matches!(x.cmd, Cmd::Delete { .. } | Cmd::Flush { .. }));
    for x in h.iter().filter(|_| !can_vanish) {
        if x.cas != 0 && x.cmd.is_mutation() && x.resp.as_ref().map(|r| r.status == st::OK).unwrap_or(false) {
            *by_token.entry(x.cas).or_insert(0) += 1;
        }
    }
    *local.entry("monitor:token_success_checked".into()).or_insert(0) += by_token.len() as u64;
    for (t, n) in &by_token {
        if *n > 1 {
            report(&["C03", "C02"], "cas-double-success", format!("{} mutations carrying the same CAS {} succeeded", n, t));
            return;
        }
    }
    let only = |f: &dyn Fn(&Cmd) -> bool| h.iter().filter(|x| x.client != 99).all(|x| f(&x.cmd));
    let fin = o.final_state_resp.as_ref();
    // (2) N adds of an absent key: exactly one success
    if *init == KS::Absent && only(&|c| matches!(c, Cmd::Store { op: op::ADD, .. })) && h.len() > 2 {
        let ok = h.iter().filter(|x| x.client != 99 && x.resp.as_ref().map(|r| r.status == st::OK).unwrap_or(false)).count();
        *local.entry("monitor:n_adds_checked".into()).or_insert(0) += 1;
        if ok != 1 {
            report(&["C04"], "adds-not-exactly-one", format!("{} of {} concurrent adds of an absent key succeeded", ok, h.len() - 1));
            return;
        }
    }
    // (3) N incr by d on a counter: distinct results, total = N*d
    if let KS::Present { v, .. } = init {
        if let Some(start) = parse_counter(v) {
            if only(&|c| matches!(c, Cmd::Counter { incr: true, .. })) && h.len() > 2 {
                let vals: Vec<u64> = h.iter().filter(|x| x.client != 99).filter_map(|x| x.resp.as_ref().and_then(|r| r.counter())).collect();
                let n = h.len() - 1;
                let distinct: HashSet<u64> = vals.iter().copied().collect();
                let finalv = fin.and_then(|r| parse_counter(&r.value));
                *local.entry("monitor:n_incr_checked".into()).or_insert(0) += 1;
                if vals.len() != n || distinct.len() != n || finalv != Some(start + 3 * n as u64) {
                    report(&["C04"], "incr-lost-update", format!("{} increments by 3 from {}: returned {:?}, final {:?} (expected {} distinct values and final {})", n, start, vals, finalv, n, start + 3 * n as u64));
                    return;
                }
            }
        }
        // (4) every acknowledged append present exactly once
        if only(&|c| matches!(c, Cmd::Concat { .. })) && h.len() > 2 {
            if let Some(f) = fin {
                *local.entry("monitor:appends_checked".into()).or_insert(0) += 1;
                for x in h.iter().filter(|x| x.client != 99) {
                    if let (Cmd::Concat { value, .. }, Some(r)) = (&x.cmd, &x.resp) {
                        if r.status == st::OK {
                            let cnt = f.value.windows(value.len()).filter(|w| *w == &value[..]).count();
                            if cnt != 1 {
                                report(&["C04"], "append-lost", format!("acknowledged suffix {:?} occurs {} times in the final value {:?}", String::from_utf8_lossy(value), cnt, String::from_utf8_lossy(&f.value)));
                                return;
                            }
                        }
                    }
                }
            }
        }
    }
}
