//! M-KV: sequential reference model of one memcached keyspace with interval
//! semantics for expiry. It does not predict one response: it checks the
//! observed response against the set of admissible ones and then follows it.
//! Every rejection names the properties it refutes.

use crate::ev::Viol;
use crate::wire::{self, op, st, Frame, Resp};
use std::collections::HashSet;

pub const NEVER: u64 = u64::MAX;

/// what `add` carrying a non-zero CAS is answered on a key that is really absent (learnt, process wide)
static ADD_CAS_ON_ABSENT: std::sync::atomic::AtomicU32 = std::sync::atomic::AtomicU32::new(u32::MAX);
static ADD_CAS_ON_ABSENT_VARIES: std::sync::atomic::AtomicBool = std::sync::atomic::AtomicBool::new(false);
/// flags carried by counters that incr/decr created (learnt, process wide)
static CREATED_COUNTER_FLAGS: std::sync::atomic::AtomicU64 = std::sync::atomic::AtomicU64::new(u64::MAX);

#[derive(Clone, Debug, PartialEq)]
pub enum CasArg {
    Zero,
    Current,
    /// k-th most recent token ever seen for the key that is not the current one
    Stale(usize),
    Plus1,
    Minus1,
    /// the current token with one bit flipped (every byte of the CAS field matters)
    XorBit(u8),
    Raw(u64),
}

#[derive(Clone, Debug, PartialEq)]
pub enum Cmd {
    Get { key: usize, k: bool, quiet: bool },
    Store { op: u8, key: usize, value: Vec<u8>, flags: u32, ttl: u32, cas: CasArg, quiet: bool },
    Concat { append: bool, key: usize, value: Vec<u8>, cas: CasArg, quiet: bool },
    Counter { incr: bool, key: usize, delta: u64, initial: u64, exp: u32, cas: CasArg, quiet: bool },
    Delete { key: usize, cas: CasArg, quiet: bool },
    Flush { delay: Option<u32>, quiet: bool },
    Noop,
    Version,
    Stat,
    Unimpl(u8),
    Advance(u64),
}

impl Cmd {
    pub fn key(&self) -> Option<usize> {
        match self {
            Cmd::Get { key, .. }
            | Cmd::Store { key, .. }
            | Cmd::Concat { key, .. }
            | Cmd::Counter { key, .. }
            | Cmd::Delete { key, .. } => Some(*key),
            _ => None,
        }
    }
    pub fn quiet(&self) -> bool {
        match self {
            Cmd::Get { quiet, .. }
            | Cmd::Store { quiet, .. }
            | Cmd::Concat { quiet, .. }
            | Cmd::Counter { quiet, .. }
            | Cmd::Delete { quiet, .. }
            | Cmd::Flush { quiet, .. } => *quiet,
            _ => false,
        }
    }
    pub fn set_quiet(&mut self, q: bool) {
        match self {
            Cmd::Get { quiet, .. }
            | Cmd::Store { quiet, .. }
            | Cmd::Concat { quiet, .. }
            | Cmd::Counter { quiet, .. }
            | Cmd::Delete { quiet, .. }
            | Cmd::Flush { quiet, .. } => *quiet = q,
            _ => {}
        }
    }
    pub fn is_mutation(&self) -> bool {
        matches!(
            self,
            Cmd::Store { .. } | Cmd::Concat { .. } | Cmd::Counter { .. } | Cmd::Delete { .. } | Cmd::Flush { .. }
        )
    }
    pub fn opcode(&self) -> u8 {
        match self {
            Cmd::Get { k, quiet, .. } => match (k, quiet) {
                (false, false) => op::GET,
                (false, true) => op::GETQ,
                (true, false) => op::GETK,
                (true, true) => op::GETKQ,
            },
            Cmd::Store { op: o, quiet, .. } => match (*o, quiet) {
                (op::SET, true) => op::SETQ,
                (op::ADD, true) => op::ADDQ,
                (op::REPLACE, true) => op::REPLACEQ,
                (o, _) => o,
            },
            Cmd::Concat { append, quiet, .. } => match (append, quiet) {
                (true, false) => op::APPEND,
                (true, true) => op::APPENDQ,
                (false, false) => op::PREPEND,
                (false, true) => op::PREPENDQ,
            },
            Cmd::Counter { incr, quiet, .. } => match (incr, quiet) {
                (true, false) => op::INCR,
                (true, true) => op::INCRQ,
                (false, false) => op::DECR,
                (false, true) => op::DECRQ,
            },
            Cmd::Delete { quiet, .. } => {
                if *quiet {
                    op::DELETEQ
                } else {
                    op::DELETE
                }
            }
            Cmd::Flush { quiet, .. } => {
                if *quiet {
                    op::FLUSHQ
                } else {
                    op::FLUSH
                }
            }
            Cmd::Noop => op::NOOP,
            Cmd::Version => op::VERSION,
            Cmd::Stat => op::STAT,
            Cmd::Unimpl(o) => *o,
            Cmd::Advance(_) => 0xff,
        }
    }
    pub fn cas_arg(&self) -> Option<&CasArg> {
        match self {
            Cmd::Store { cas, .. } | Cmd::Concat { cas, .. } | Cmd::Counter { cas, .. } | Cmd::Delete { cas, .. } => {
                Some(cas)
            }
            _ => None,
        }
    }
    /// the wire frame, with the CAS argument already resolved
    pub fn frame(&self, keys: &[Vec<u8>], cas: u64, opaque: u32) -> Frame {
        let o = self.opcode();
        match self {
            Cmd::Get { key, .. } => wire::get(o, &keys[*key], opaque),
            Cmd::Store { key, value, flags, ttl, .. } => wire::store(o, &keys[*key], value, *flags, *ttl, opaque, cas),
            Cmd::Concat { key, value, .. } => wire::concat(o, &keys[*key], value, opaque, cas),
            Cmd::Counter { key, delta, initial, exp, .. } => {
                wire::counter(o, &keys[*key], *delta, *initial, *exp, opaque, cas)
            }
            Cmd::Delete { key, .. } => wire::delete(o, &keys[*key], opaque, cas),
            Cmd::Flush { delay, .. } => wire::flush(o, *delay, opaque),
            Cmd::Noop | Cmd::Version | Cmd::Stat => wire::simple(o, opaque),
            Cmd::Unimpl(_) => match o {
                op::TOUCH | op::GAT | op::GATQ | op::GATK | op::GATKQ => {
                    wire::req(o, &[0, 0, 0, 10], b"tk", &[], opaque, 0)
                }
                op::SASL_AUTH | op::SASL_STEP => wire::req(o, &[], b"PLAIN", b"\0u\0p", opaque, 0),
                _ => wire::simple(o, opaque),
            },
            Cmd::Advance(_) => wire::simple(op::NOOP, opaque),
        }
    }
    pub fn brief(&self) -> String {
        match self {
            Cmd::Get { key, .. } => format!("{} k{}", op::name(self.opcode()), key),
            Cmd::Store { key, value, flags, ttl, cas, .. } => format!(
                "{} k{} v={} f={:#x} ttl={} cas={:?}",
                op::name(self.opcode()),
                key,
                wire::short(value),
                flags,
                ttl,
                cas
            ),
            Cmd::Concat { key, value, cas, .. } => {
                format!("{} k{} v={} cas={:?}", op::name(self.opcode()), key, wire::short(value), cas)
            }
            Cmd::Counter { key, delta, initial, exp, cas, .. } => format!(
                "{} k{} d={} i={} exp={:#x} cas={:?}",
                op::name(self.opcode()),
                key,
                delta,
                initial,
                exp,
                cas
            ),
            Cmd::Delete { key, cas, .. } => format!("{} k{} cas={:?}", op::name(self.opcode()), key, cas),
            Cmd::Flush { delay, .. } => format!("{} delay={:?}", op::name(self.opcode()), delay),
            Cmd::Advance(d) => format!("advance {}", d),
            _ => op::name(self.opcode()).to_string(),
        }
    }
}

#[derive(Clone, Copy, Debug, PartialEq)]
pub enum Why {
    Never,
    Deleted,
    Flushed,
    Expired,
}

#[derive(Clone, Copy, Debug, PartialEq)]
pub enum Vis {
    Live,
    Limbo,
    Expired,
}

#[derive(Clone, Debug)]
pub struct Item {
    pub value: Vec<u8>,
    /// None = unknown (L-f: flags of an item created by incr/decr)
    pub flags: Option<u32>,
    /// None = not yet observed (stored by a quiet command)
    pub cas: Option<u64>,
    /// possible values of the item's own TTL (L-c)
    pub ttls: Vec<u32>,
    /// item MUST be visible at every t < lo
    pub lo: u64,
    /// item MUST be invisible at every t >= hi
    pub hi: u64,
    pub client_cas: bool,
    pub tokens: HashSet<u64>,
    pub flushed: bool,
    pub hi_by_flush: bool,
    /// kind of the last mutation, for attribution: "store" | "concat" | "counter"
    pub last: &'static str,
}

impl Item {
    pub fn vis(&self, now: u64) -> Vis {
        if now < self.lo {
            Vis::Live
        } else if now >= self.hi {
            Vis::Expired
        } else {
            Vis::Limbo
        }
    }
    fn tags(&self) -> Vec<&'static str> {
        match self.last {
            "concat" => vec!["C06", "C01"],
            "counter" => vec!["C07", "C01"],
            _ => vec!["C01"],
        }
    }
}

#[derive(Clone, Debug)]
pub enum Slot {
    Absent(Why),
    Present(Item),
    /// the last response was consistent with more than one successor state
    /// (e.g. a silent quiet incr on an item in limbo: incremented or created);
    /// anything is admissible until a retrieval reveals the state again
    Unknown,
}

/// Coverage classification of one applied command.
#[derive(Clone, Debug)]
pub struct Obs {
    pub state: &'static str,
    pub status: u16,
    pub silent: bool,
}

pub struct Model {
    pub slots: Vec<Slot>,
    /// every token ever acknowledged / observed per key, oldest first
    pub issued: Vec<Vec<u64>>,
    pub now: u64,
    /// comparisons made (vacuity guard)
    pub comparisons: u64,
}

fn exp_at(now: u64, ttl: u32) -> u64 {
    if ttl == 0 {
        NEVER
    } else {
        now.saturating_add(ttl as u64)
    }
}

/// strict decimal u64: ^[0-9]+$ and fits
pub fn parse_counter(v: &[u8]) -> Option<u64> {
    if v.is_empty() || !v.iter().all(|b| b.is_ascii_digit()) {
        return None;
    }
    let mut acc: u64 = 0;
    for b in v {
        acc = acc.checked_mul(10)?.checked_add((*b - b'0') as u64)?;
    }
    Some(acc)
}

/// L-e: texts Rust's parser accepts but memcached's does not ("+5")
fn lenient_counter(v: &[u8]) -> Option<u64> {
    if v.len() >= 2 && v[0] == b'+' {
        parse_counter(&v[1..])
    } else {
        None
    }
}

fn viol(props: &[&'static str], sig: &str, msg: String) -> Viol {
    Viol::new(props, sig, msg)
}

impl Model {
    pub fn new(nkeys: usize, now: u64) -> Model {
        Model { slots: vec![Slot::Absent(Why::Never); nkeys], issued: vec![vec![]; nkeys], now, comparisons: 0 }
    }

    pub fn resolve_cas(&self, key: usize, arg: &CasArg) -> u64 {
        let cur = match &self.slots[key] {
            Slot::Present(it) => it.cas,
            _ => None,
        };
        match arg {
            CasArg::Zero => 0,
            CasArg::Raw(x) => *x,
            CasArg::Current => cur.unwrap_or_else(|| self.issued[key].last().copied().unwrap_or(7)),
            CasArg::Plus1 => cur.unwrap_or(1).wrapping_add(1).max(1),
            CasArg::Minus1 => cur.unwrap_or(3).wrapping_sub(1).max(1),
            CasArg::XorBit(b) => {
                let x = cur.unwrap_or(5) ^ (1u64 << (*b % 64));
                if x == 0 {
                    1 << 40
                } else {
                    x
                }
            }
            CasArg::Stale(k) => {
                let old: Vec<u64> = self.issued[key].iter().copied().filter(|t| Some(*t) != cur).collect();
                if old.is_empty() {
                    0xdead
                } else {
                    old[old.len() - 1 - (k % old.len())]
                }
            }
        }
    }

    pub fn state_name(&self, key: usize) -> &'static str {
        match &self.slots[key] {
            Slot::Absent(Why::Never) => "absent",
            Slot::Absent(Why::Deleted) => "deleted",
            Slot::Absent(Why::Flushed) => "flushed",
            Slot::Absent(Why::Expired) => "expired-gone",
            Slot::Unknown => "unknown",
            Slot::Present(it) => match it.vis(self.now) {
                Vis::Live => "live",
                Vis::Limbo => "limbo",
                Vis::Expired => "expired",
            },
        }
    }

    fn note_token(&mut self, key: usize, c: u64) {
        if self.issued[key].last() != Some(&c) {
            self.issued[key].push(c);
            if self.issued[key].len() > 64 {
                self.issued[key].remove(0);
            }
        }
    }

    /// A successful mutation acknowledged CAS `c` for `key`. `same_life` holds
    /// the item the mutation continued (None = new lifetime).
    fn ack_token(&mut self, key: usize, c: u64, same_life: Option<&Item>, what: &str) -> Result<(), Viol> {
        self.comparisons += 1;
        if c == 0 {
            return Err(viol(&["C02", "C01"], "cas-zero", format!("{} acknowledged CAS 0", what)));
        }
        if let Some(it) = same_life {
            if !it.client_cas && it.tokens.contains(&c) {
                return Err(viol(
                    &["C02"],
                    "cas-token-reuse",
                    format!(
                        "{} acknowledged CAS {} which the item already carried in its current lifetime (tokens {:?})",
                        what, c, it.tokens
                    ),
                ));
            }
        }
        self.note_token(key, c);
        Ok(())
    }

    fn new_item(
        &mut self,
        key: usize,
        value: Vec<u8>,
        flags: Option<u32>,
        cas: Option<u64>,
        ttl: u32,
        client_cas: bool,
        cont: Option<&Item>,
        last: &'static str,
    ) {
        let mut tokens = match cont {
            Some(it) => it.tokens.clone(),
            None => HashSet::new(),
        };
        if let Some(c) = cas {
            tokens.insert(c);
        }
        let client = client_cas || cont.map(|i| i.client_cas).unwrap_or(false);
        self.slots[key] = Slot::Present(Item {
            value,
            flags,
            cas,
            ttls: vec![ttl],
            lo: exp_at(self.now, ttl),
            hi: exp_at(self.now, ttl),
            client_cas: client,
            tokens,
            flushed: false,
            hi_by_flush: false,
            last,
        });
    }

    /// mutation that keeps the TTL (append/prepend/incr/decr on an existing item)
    fn mutate_item(&mut self, key: usize, old: &Item, value: Vec<u8>, cas: Option<u64>, extra_ttl: Option<u32>, last: &'static str) {
        let mut it = old.clone();
        it.value = value;
        it.cas = cas;
        if let Some(c) = cas {
            it.tokens.insert(c);
        }
        if let Some(e) = extra_ttl {
            if !it.ttls.contains(&e) {
                it.ttls.push(e);
            }
        }
        // C05 names the mechanism: "timestamp stamped on every successful set", and bounds an item's life by
        // "its last successful mutation plus its TTL": an acknowledged append/prepend/incr/decr stores the item
        // anew, so the mutated item must be visible until now + its TTL (when that TTL is known and no delayed
        // flush has touched this lifetime; otherwise only the old lower bound can be kept)
        let mut lo = if !it.flushed && it.ttls.len() == 1 { NEVER } else { it.lo };
        let mut hi = it.hi;
        for t in &it.ttls {
            lo = lo.min(exp_at(self.now, *t));
            hi = hi.max(exp_at(self.now, *t));
        }
        it.lo = lo;
        it.hi = hi;
        if hi != old.hi {
            it.hi_by_flush = false;
        }
        it.last = last;
        self.slots[key] = Slot::Present(it);
    }

    /// Checks a hit against the item and follows what it reveals.
    fn check_hit(&mut self, key: usize, r: &Resp, what: &str) -> Result<(), Viol> {
        let it = match &self.slots[key] {
            Slot::Present(it) => it.clone(),
            _ => unreachable!(),
        };
        self.comparisons += 3;
        let tags = it.tags();
        if r.value != it.value {
            return Err(viol(
                &tags,
                "hit-value",
                format!("{}: hit returned value {} but the model holds {}", what, wire::short(&r.value), wire::short(&it.value)),
            ));
        }
        let rf = r.flags().unwrap_or(0);
        match it.flags {
            Some(f) if f != rf => {
                return Err(viol(&tags, "hit-flags", format!("{}: hit returned flags {:#x}, stored {:#x}", what, rf, f)));
            }
            None if it.last == "counter" => {
                // L-f leaves open which flags a counter created by incr/decr gets - but not that they are a
                // property of the server, not of the request: whatever the first created counter carried, every
                // other one must carry too
                let prev = CREATED_COUNTER_FLAGS.swap(rf as u64, std::sync::atomic::Ordering::Relaxed);
                if prev != u64::MAX && prev != rf as u64 {
                    return Err(viol(&["C07", "C01"], "created-counter-flags-vary", format!("{}: a counter created by incr/decr carries flags {:#x}, an earlier one carried {:#x}: the flags of a created counter depend on something in the request", what, rf, prev)));
                }
            }
            _ => {}
        }
        if r.cas == 0 {
            return Err(viol(&["C01", "C02"], "hit-cas-zero", format!("{}: hit with CAS 0", what)));
        }
        match it.cas {
            Some(c) if c != r.cas => {
                return Err(viol(
                    &["C02", "C01"],
                    "hit-cas",
                    format!("{}: hit reports CAS {} but the last acknowledged mutation carried {}", what, r.cas, c),
                ));
            }
            Some(_) => {}
            None => {
                if !it.client_cas && it.tokens.contains(&r.cas) {
                    return Err(viol(
                        &["C02"],
                        "cas-token-reuse",
                        format!("{}: item carries CAS {} which it already carried in this lifetime", what, r.cas),
                    ));
                }
                self.note_token(key, r.cas);
            }
        }
        if let Slot::Present(m) = &mut self.slots[key] {
            m.flags = Some(rf);
            m.cas = Some(r.cas);
            m.tokens.insert(r.cas);
        }
        Ok(())
    }

    /// The key's state is not known (see Slot::Unknown): accept every response
    /// the protocol allows for the command and re-learn what the response reveals.
    fn apply_unknown(&mut self, cmd: &Cmd, cas: u64, key: usize, status: u16, resp: Option<&Resp>) -> Result<(), Viol> {
        let name = op::name(cmd.opcode());
        let bad = |tags: &[&'static str]| Err(viol(tags, "status-on-unknown", format!("{} (cas {}) answered {:#x}", name, cas, status)));
        match cmd {
            Cmd::Get { .. } => match status {
                st::OK => {
                    let r = resp.unwrap();
                    if r.cas == 0 {
                        return Err(viol(&["C01", "C02"], "hit-cas-zero", format!("{}: hit with CAS 0", name)));
                    }
                    self.note_token(key, r.cas);
                    let mut tokens = HashSet::new();
                    tokens.insert(r.cas);
                    self.slots[key] = Slot::Present(Item {
                        value: r.value.clone(),
                        flags: Some(r.flags().unwrap_or(0)),
                        cas: Some(r.cas),
                        ttls: vec![0],
                        lo: self.now,
                        hi: NEVER,
                        client_cas: true,
                        tokens,
                        flushed: true,
                        hi_by_flush: false,
                        last: "store",
                    });
                }
                st::NOT_FOUND => self.slots[key] = Slot::Absent(Why::Expired),
                _ => return bad(&["C01"]),
            },
            Cmd::Store { op: sop, value, flags, ttl, .. } => match (status, *sop) {
                (st::OK, _) => {
                    let acked = resp.map(|r| r.cas);
                    if let Some(c) = acked {
                        self.ack_token(key, c, None, name)?;
                    }
                    self.new_item(key, value.clone(), Some(*flags), acked, *ttl, true, None, "store");
                }
                (st::NOT_FOUND, op::REPLACE) => self.slots[key] = Slot::Absent(Why::Expired),
                (st::EXISTS, op::ADD) => {}
                (st::NOT_FOUND, _) | (st::EXISTS, _) if cas != 0 => {}
                _ => return bad(&["C01", "C06"]),
            },
            Cmd::Concat { .. } => match status {
                st::OK => {}
                st::NOT_FOUND => self.slots[key] = Slot::Absent(Why::Expired),
                st::EXISTS if cas != 0 => {}
                _ => return bad(&["C06"]),
            },
            Cmd::Counter { exp, .. } => match status {
                st::OK | st::NON_NUMERIC => {}
                st::NOT_FOUND if *exp == 0xffff_ffff => self.slots[key] = Slot::Absent(Why::Expired),
                st::NOT_FOUND | st::EXISTS if cas != 0 => {}
                _ => return bad(&["C07"]),
            },
            Cmd::Delete { .. } => match status {
                st::OK => self.slots[key] = Slot::Absent(Why::Deleted),
                st::NOT_FOUND => self.slots[key] = Slot::Absent(Why::Expired),
                st::EXISTS if cas != 0 => {}
                _ => return bad(&["C08"]),
            },
            _ => {}
        }
        Ok(())
    }

    /// Applies one command with the response that was observed for it
    /// (None = nothing was sent back).
    pub fn apply(&mut self, cmd: &Cmd, cas: u64, resp: Option<&Resp>) -> Result<Obs, Viol> {
        let quiet = cmd.quiet();
        let name = op::name(cmd.opcode());
        // response presence rules (C12/C19)
        let is_get = matches!(cmd, Cmd::Get { .. });
        let status: u16 = match resp {
            Some(r) => {
                self.comparisons += 1;
                if quiet && !is_get && r.status == st::OK && !matches!(cmd, Cmd::Unimpl(_)) {
                    return Err(viol(&["C19", "C12"], "quiet-success-answered", format!("quiet {} answered on success", name)));
                }
                if quiet && is_get && r.status == st::NOT_FOUND {
                    return Err(viol(&["C19", "C12"], "quiet-miss-answered", format!("quiet {} answered on a miss", name)));
                }
                r.status
            }
            None => {
                self.comparisons += 1;
                if !quiet {
                    return Err(viol(
                        &["C12", "C11"],
                        "no-response",
                        format!("loud {} got no response", name),
                    ));
                }
                if is_get {
                    st::NOT_FOUND
                } else {
                    st::OK
                }
            }
        };
        let silent = resp.is_none();
        let state = cmd.key().map(|k| self.state_name(k)).unwrap_or("-");
        let obs = Obs { state, status, silent };
        let now = self.now;
        if let Some(k) = cmd.key() {
            if matches!(self.slots[k], Slot::Unknown) {
                self.apply_unknown(cmd, cas, k, status, resp)?;
                return Ok(obs);
            }
        }
        match cmd {
            Cmd::Advance(_) => {}
            Cmd::Noop | Cmd::Version => {
                if status != st::OK {
                    return Err(viol(&["C12", "C11"], "simple-status", format!("{} answered status {:#x}", name, status)));
                }
            }
            Cmd::Stat | Cmd::Unimpl(_) => {}
            Cmd::Flush { delay, .. } => {
                if status != st::OK {
                    return Err(viol(&["C08"], "flush-status", format!("flush answered status {:#x}", status)));
                }
                let n = delay.unwrap_or(0);
                for s in self.slots.iter_mut() {
                    if n == 0 && matches!(s, Slot::Unknown) {
                        *s = Slot::Absent(Why::Flushed);
                    }
                    if let Slot::Present(it) = s {
                        if n == 0 {
                            *s = Slot::Absent(Why::Flushed);
                        } else {
                            it.lo = it.lo.min(now);
                            let d = now.saturating_add(n as u64);
                            if d < it.hi {
                                it.hi = d;
                                it.hi_by_flush = true;
                            }
                            it.flushed = true;
                            let extra: Vec<u32> =
                                it.ttls.iter().map(|t| if *t == 0 || *t > n { n } else { *t }).collect();
                            for e in extra {
                                if !it.ttls.contains(&e) {
                                    it.ttls.push(e);
                                }
                            }
                        }
                    }
                }
            }
            Cmd::Get { key, .. } => {
                let key = *key;
                match self.slots[key].clone() {
                    Slot::Unknown => unreachable!(),
                    Slot::Absent(why) => {
                        self.comparisons += 1;
                        if status != st::NOT_FOUND {
                            let (tags, sig): (&[&'static str], &str) = match why {
                                Why::Expired => (&["C05"], "visible-again-after-expiry"),
                                Why::Deleted => (&["C08", "C01"], "visible-after-delete"),
                                Why::Flushed => (&["C08", "C01"], "visible-after-flush"),
                                Why::Never => (&["C01"], "hit-on-never-stored"),
                            };
                            return Err(viol(tags, sig, format!("{} on an absent key ({:?}) answered {:#x} {}", name, why, status, resp.map(|r| r.brief()).unwrap_or_default())));
                        }
                    }
                    Slot::Present(it) => match it.vis(now) {
                        Vis::Live => {
                            self.comparisons += 1;
                            if status != st::OK {
                                // C05 covers both directions: a TTL that ends early, and "an item with TTL 0
                                // never expires"
                                let mut tags = vec!["C01"];
                                if it.ttls.iter().any(|t| *t != 0) {
                                    tags.insert(0, "C05");
                                } else {
                                    tags.push("C05");
                                }
                                return Err(viol(
                                    &tags,
                                    "live-item-missing",
                                    format!("{} at t={} answered {:#x} for an item that must be visible until t={} (value {})", name, now, status, it.lo, wire::short(&it.value)),
                                ));
                            }
                            self.check_hit(key, resp.unwrap(), name)?;
                        }
                        Vis::Expired => {
                            self.comparisons += 1;
                            if status != st::NOT_FOUND {
                                let tags: &[&'static str] = if it.hi_by_flush { &["C08", "C05"] } else { &["C05"] };
                                return Err(viol(
                                    tags,
                                    if it.hi_by_flush { "hit-after-flush-deadline" } else { "hit-after-expiry" },
                                    format!("{} at t={} hit an item that must be invisible from t={}", name, now, it.hi),
                                ));
                            }
                            self.slots[key] = Slot::Absent(Why::Expired);
                        }
                        Vis::Limbo => {
                            if status == st::OK {
                                self.check_hit(key, resp.unwrap(), name)?;
                            } else if status == st::NOT_FOUND {
                                self.slots[key] = Slot::Absent(Why::Expired);
                            } else {
                                return Err(viol(&["C01"], "get-status", format!("{} answered status {:#x}", name, status)));
                            }
                        }
                    },
                }
            }
            Cmd::Store { op: sop, key, value, flags, ttl, .. } => {
                let key = *key;
                let slot = self.slots[key].clone();
                let (vis, item) = match &slot {
                    Slot::Absent(_) | Slot::Unknown => (Vis::Expired, None),
                    Slot::Present(it) => (it.vis(now), Some(it.clone())),
                };
                let absent = item.is_none();
                let exp_tag = !absent && vis != Vis::Live;
                self.comparisons += 1;
                let what = format!("{} (cas {}) on a {} key", name, cas, state);
                // admissible statuses
                let mut ok_allowed = false;
                let mut nf_allowed = false;
                let mut ex_allowed = false;
                match *sop {
                    op::SET => {
                        if cas == 0 {
                            ok_allowed = true;
                        } else if absent {
                            ok_allowed = true;
                            nf_allowed = true;
                            ex_allowed = true; // L-a
                        } else {
                            let it = item.as_ref().unwrap();
                            let m = it.cas.map(|c| c == cas);
                            match vis {
                                Vis::Live => match m {
                                    Some(true) => ok_allowed = true,
                                    Some(false) => ex_allowed = true,
                                    None => {
                                        ok_allowed = true;
                                        ex_allowed = true;
                                    }
                                },
                                _ => {
                                    ok_allowed = true;
                                    nf_allowed = true;
                                    ex_allowed = true; // L-b
                                }
                            }
                        }
                    }
                    op::ADD => {
                        if absent || vis == Vis::Expired {
                            ok_allowed = true;
                            if cas != 0 {
                                nf_allowed = true;
                                ex_allowed = true;
                                // L-a leaves open what an add carrying a CAS answers on an absent key, but C05 does
                                // not: an expired item "is treated as absent by ... add". What this implementation
                                // answers on keys that are really absent is learnt from the run itself; an expired
                                // item - collected or not - must get the same answer
                                let truly_absent = matches!(slot, Slot::Absent(_));
                                if truly_absent {
                                    let prev = ADD_CAS_ON_ABSENT.swap(status as u32, std::sync::atomic::Ordering::Relaxed);
                                    if prev != u32::MAX && prev != status as u32 {
                                        ADD_CAS_ON_ABSENT_VARIES.store(true, std::sync::atomic::Ordering::Relaxed);
                                    }
                                } else if !absent {
                                    let learnt = ADD_CAS_ON_ABSENT.load(std::sync::atomic::Ordering::Relaxed);
                                    if learnt != u32::MAX && !ADD_CAS_ON_ABSENT_VARIES.load(std::sync::atomic::Ordering::Relaxed) && learnt != status as u32 {
                                        return Err(viol(
                                            &["C05", "C06"],
                                            "expired-not-treated-as-absent",
                                            format!("{}: answered {:#x}, but the same command on an absent key is answered {:#x}: an expired item must be treated as absent by add", what, status, learnt),
                                        ));
                                    }
                                }
                            }
                        } else if vis == Vis::Live {
                            ex_allowed = true;
                        } else {
                            ok_allowed = true;
                            ex_allowed = true;
                            if cas != 0 {
                                nf_allowed = true;
                            }
                        }
                    }
                    _ => {
                        // replace
                        if absent || vis == Vis::Expired {
                            nf_allowed = true;
                        } else {
                            let it = item.as_ref().unwrap();
                            let m = if cas == 0 { Some(true) } else { it.cas.map(|c| c == cas) };
                            match m {
                                Some(true) => ok_allowed = true,
                                Some(false) => ex_allowed = true,
                                None => {
                                    ok_allowed = true;
                                    ex_allowed = true;
                                }
                            }
                            if vis == Vis::Limbo {
                                nf_allowed = true;
                            }
                        }
                    }
                }
                let allowed = match status {
                    st::OK => ok_allowed,
                    st::NOT_FOUND => nf_allowed,
                    st::EXISTS => ex_allowed,
                    _ => false,
                };
                if !allowed {
                    let mut tags: Vec<&'static str> = match *sop {
                        op::SET => {
                            if cas == 0 {
                                vec!["C01"]
                            } else {
                                vec!["C02"]
                            }
                        }
                        _ => {
                            if cas != 0 && !absent && vis == Vis::Live && *sop == op::REPLACE {
                                vec!["C02", "C06"]
                            } else {
                                vec!["C06"]
                            }
                        }
                    };
                    if exp_tag {
                        tags.push("C05");
                    }
                    return Err(viol(&tags, "store-status", format!("{} answered {:#x}", what, status)));
                }
                match status {
                    st::OK => {
                        let acked = resp.map(|r| r.cas);
                        let cont = if !absent && vis == Vis::Live && *sop != op::ADD { item.as_ref() } else { None };
                        if let Some(c) = acked {
                            self.ack_token(key, c, cont, &what)?;
                        }
                        let client = cas != 0 && (absent || vis != Vis::Live);
                        self.new_item(key, value.clone(), Some(*flags), acked, *ttl, client, cont, "store");
                    }
                    st::NOT_FOUND => {
                        if *sop == op::REPLACE && !absent {
                            self.slots[key] = Slot::Absent(Why::Expired);
                        }
                    }
                    _ => {
                        // key exists: item unchanged. An add that says "exists" on a limbo item
                        // tells us nothing about later times.
                    }
                }
            }
            Cmd::Concat { append, key, value, .. } => {
                let key = *key;
                let slot = self.slots[key].clone();
                self.comparisons += 1;
                let what = format!("{} (cas {}) on a {} key", name, cas, state);
                match slot {
                    Slot::Unknown => unreachable!(),
                    Slot::Absent(_) => {
                        if status != st::NOT_FOUND {
                            return Err(viol(&["C06"], "concat-status", format!("{} answered {:#x}", what, status)));
                        }
                    }
                    Slot::Present(it) => {
                        let vis = it.vis(now);
                        let m = if cas == 0 { Some(true) } else { it.cas.map(|c| c == cas) };
                        let ok = match status {
                            st::NOT_FOUND => vis != Vis::Live,
                            st::OK => vis != Vis::Expired && m != Some(false),
                            st::EXISTS => vis != Vis::Expired && m != Some(true),
                            _ => false,
                        };
                        if !ok {
                            let mut tags = if cas != 0 && vis == Vis::Live && status != st::NOT_FOUND {
                                vec!["C02", "C06"]
                            } else {
                                vec!["C06"]
                            };
                            if vis != Vis::Live {
                                tags.push("C05");
                            }
                            return Err(viol(&tags, "concat-status", format!("{} answered {:#x}", what, status)));
                        }
                        match status {
                            st::NOT_FOUND => self.slots[key] = Slot::Absent(Why::Expired),
                            st::OK => {
                                let acked = resp.map(|r| r.cas);
                                if let Some(c) = acked {
                                    let cont = if vis == Vis::Live { Some(&it) } else { None };
                                    self.ack_token(key, c, cont, &what)?;
                                }
                                let mut v = Vec::with_capacity(it.value.len() + value.len());
                                if *append {
                                    v.extend_from_slice(&it.value);
                                    v.extend_from_slice(value);
                                } else {
                                    v.extend_from_slice(value);
                                    v.extend_from_slice(&it.value);
                                }
                                self.mutate_item(key, &it, v, acked, None, "concat");
                            }
                            _ => {}
                        }
                    }
                }
            }
            Cmd::Counter { incr, key, delta, initial, exp, .. } => {
                let key = *key;
                let slot = self.slots[key].clone();
                self.comparisons += 1;
                let what = format!("{} (cas {}, delta {}, initial {}, exp {:#x}) on a {} key", name, cas, delta, initial, exp, state);
                let (vis, item) = match &slot {
                    Slot::Absent(_) => (Vis::Expired, None),
                    Slot::Present(it) => (it.vis(now), Some(it.clone())),
                    Slot::Unknown => unreachable!(),
                };
                let rv = resp.and_then(|r| r.counter());
                // candidate readings of the observed response
                #[derive(Debug)]
                enum Next {
                    Created,
                    Mutated(u64),
                    Gone,
                    Same,
                }
                let mut cands: Vec<Next> = vec![];
                if item.is_none() || vis != Vis::Live {
                    // the key is (or may be) absent
                    if *exp == 0xffff_ffff {
                        if status == st::NOT_FOUND {
                            cands.push(Next::Gone);
                        }
                    } else if status == st::OK && (silent || rv == Some(*initial)) {
                        cands.push(Next::Created);
                    }
                    // (no L-a here: C07 says without exception that on an absent key incr/decr create the item
                    // unless the expiration is 0xffffffff; only an item that may still be present - limbo -
                    // can answer a CAS mismatch)
                    if cas != 0 && *exp != 0xffff_ffff && item.is_some() && vis == Vis::Limbo && (status == st::NOT_FOUND || status == st::EXISTS) {
                        cands.push(Next::Gone);
                    }
                }
                if let Some(it) = &item {
                    if vis != Vis::Expired {
                        let m = if cas == 0 { Some(true) } else { it.cas.map(|c| c == cas) };
                        let strict = parse_counter(&it.value);
                        let len = lenient_counter(&it.value);
                        let compute = |v: u64| if *incr { v.wrapping_add(*delta) } else { v.saturating_sub(*delta) };
                        match status {
                            st::OK => {
                                if m != Some(false) {
                                    for v in strict.iter().chain(len.iter()) {
                                        let c = compute(*v);
                                        if silent || rv == Some(c) {
                                            cands.push(Next::Mutated(c));
                                        }
                                    }
                                }
                            }
                            st::NON_NUMERIC => {
                                if strict.is_none() {
                                    cands.push(Next::Same);
                                }
                            }
                            st::EXISTS => {
                                // C07: "on a value that is not a decimal u64 they fail with 'non-numeric value'" -
                                // whatever CAS the request carries; a CAS mismatch is only an answer for a value
                                // that could have been counted
                                if m != Some(true) && (strict.is_some() || len.is_some()) {
                                    cands.push(Next::Same);
                                }
                            }
                            _ => {}
                        }
                    }
                }
                if cands.is_empty() {
                    let mut tags = vec!["C07"];
                    if cas != 0 && item.is_some() && vis == Vis::Live && (status == st::EXISTS || status == st::OK) {
                        tags.push("C02");
                    }
                    if item.is_some() && vis != Vis::Live {
                        tags.push("C05");
                    }
                    let have = item.as_ref().map(|i| wire::short(&i.value)).unwrap_or_else(|| "-".into());
                    return Err(viol(
                        &tags,
                        "counter-outcome",
                        format!("{} answered {:#x} value {:?}; stored text {}", what, status, rv, have),
                    ));
                }
                if cands.len() > 1 {
                    // ambiguous (only possible in limbo): resynchronise on the next retrieval
                    if let Some(c) = resp.map(|r| r.cas) {
                        if status == st::OK {
                            self.ack_token(key, c, None, &what)?;
                        }
                    }
                    self.slots[key] = Slot::Unknown;
                } else {
                    match cands.pop().unwrap() {
                        Next::Gone => {
                            if item.is_some() {
                                self.slots[key] = Slot::Absent(Why::Expired);
                            }
                        }
                        Next::Same => {}
                        Next::Created => {
                            let acked = resp.map(|r| r.cas);
                            if let Some(c) = acked {
                                self.ack_token(key, c, None, &what)?;
                            }
                            self.new_item(key, initial.to_string().into_bytes(), None, acked, *exp, cas != 0, None, "counter");
                        }
                        Next::Mutated(newv) => {
                            let it = item.as_ref().unwrap();
                            let acked = resp.map(|r| r.cas);
                            if let Some(t) = acked {
                                let cont = if vis == Vis::Live { Some(it) } else { None };
                                self.ack_token(key, t, cont, &what)?;
                            }
                            // like append/prepend, a counter update leaves the item's own TTL alone: C05 bounds
                            // an item's life by its last mutation plus *its* TTL, and TTL 0 never expires
                            self.mutate_item(key, it, newv.to_string().into_bytes(), acked, None, "counter");
                        }
                    }
                }
            }
            Cmd::Delete { key, .. } => {
                let key = *key;
                self.comparisons += 1;
                let what = format!("{} (cas {}) on a {} key", name, cas, state);
                match self.slots[key].clone() {
                    Slot::Unknown => unreachable!(),
                    Slot::Absent(_) => {
                        if status != st::NOT_FOUND {
                            return Err(viol(&["C08"], "delete-status", format!("{} answered {:#x}", what, status)));
                        }
                    }
                    Slot::Present(it) => {
                        let vis = it.vis(now);
                        let m = if cas == 0 { Some(true) } else { it.cas.map(|c| c == cas) };
                        let ok = match (vis, status) {
                            (Vis::Live, st::OK) => m != Some(false),
                            (Vis::Live, st::EXISTS) => m != Some(true),
                            (Vis::Live, _) => false,
                            (_, st::OK) | (_, st::NOT_FOUND) => true, // L-b
                            (_, st::EXISTS) => cas != 0,
                            _ => false,
                        };
                        if !ok {
                            let tags: &[&'static str] = if cas != 0 { &["C08", "C02"] } else { &["C08"] };
                            return Err(viol(tags, "delete-status", format!("{} answered {:#x}", what, status)));
                        }
                        match status {
                            st::OK => self.slots[key] = Slot::Absent(Why::Deleted),
                            st::NOT_FOUND => self.slots[key] = Slot::Absent(Why::Expired),
                            _ => {}
                        }
                    }
                }
            }
        }
        Ok(obs)
    }
}

