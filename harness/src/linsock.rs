//! `linsock`: the linearizability check at L3 — concurrent TCP clients against an in-process
//! multi-thread (or current-thread) server, round based; and `timer`: the real 1 Hz clock.

use crate::ev::{fnv, Ctx, Evidence, Viol};
use crate::kv::{self, install_quiet_panic_hook};
use crate::l3::ask;
use crate::lin::{cas_of, concrete, linearizable, tags_for_pub, HOp, LinRes, Setup, A, ALPHA_C03, ALPHA_C04, KS};
use crate::model::Cmd;
use crate::sock::{Cli, Server, SrvCfg};
use crate::wire::{self, op, st};
use memcrs::server::timer::{SystemTimer, Timer};
use rand::rngs::SmallRng;
use rand::{Rng, SeedableRng};
use serde_json::json;
use std::collections::BTreeMap;
use std::sync::atomic::{AtomicU64, Ordering};
use std::sync::{Arc, Barrier, Mutex};
use std::time::{Duration, Instant};

pub const RULE_LINSOCK: &str = "a case is one round: 3..8 TCP clients (own connections to one in-process server, multi-thread or current-thread runtime) each issue 1..2 commands of the property's alphabet on one fresh key after a barrier; call/return tickets are taken at the client boundary around the socket exchange, a quiescent get is appended, and the history is checked against the one-key sequential specification; non-trivial when operations of different clients overlapped; distinct by the canonical history";

pub fn run_linsock(ctx: &Ctx) -> i32 {
    install_quiet_panic_hook();
    let mut ev0 = Evidence::new(ctx, "exploration", RULE_LINSOCK);
    ev0.assumptions = vec!["histories recorded at the TCP client boundary; OS scheduling and the tokio runtime produce the interleavings (no forced schedules at this level)".into()];
    let shared = Mutex::new(ev0);
    let rounds = ctx.n(1200, 5000);
    let next = AtomicU64::new(0);
    let deadline = if ctx.budget_s > 0 { Some(Instant::now() + Duration::from_secs(ctx.budget_s)) } else { None };
    let alpha: &[A] = if matches!(ctx.prop.as_str(), "C03" | "C02") { &ALPHA_C03 } else { &ALPHA_C04 };
    let nworkers = (ctx.workers / 4).max(1);
    std::thread::scope(|s| {
        for w in 0..nworkers {
            let (next, shared) = (&next, &shared);
            s.spawn(move || {
                // every third worker talks to a server started through the real start-up path in a child
                // process: current-thread runtime with 4 listener threads sharing one port (the
                // configuration in which connections are served by different listeners)
                let real = w % 3 == 2;
                let flavour = if w % 2 == 0 { Some(4) } else { None };
                let mut srv: Option<Server> = None;
                let mut child: Option<crate::config::Proc> = None;
                let port = if real {
                    let conf = crate::config::Conf { runtime: "current-thread", threads: 4, eviction: if w % 2 == 0 { "none" } else { "random" }, item_limit: 1 << 20, conn_limit: 1024 };
                    match crate::config::start(&conf, &None) {
                        Ok(p) => {
                            let port = p.port;
                            child = Some(p);
                            port
                        }
                        Err(_) => return,
                    }
                } else {
                    match Server::start(SrvCfg { workers: flavour, idle_s: 30, ..Default::default() }) {
                        Ok(s) => {
                            let port = s.port;
                            srv = Some(s);
                            port
                        }
                        Err(_) => return,
                    }
                };
                let _keep = &child;
                let connect = |port: u16| if real { Cli::connect_plain(port) } else { Cli::connect(port) };
                let mut setup = match connect(port) {
                    Ok(c) => c,
                    Err(_) => return,
                };
                let mut pool: Vec<Cli> = (0..8).filter_map(|_| connect(port).ok()).collect();
                let mut local: BTreeMap<String, u64> = BTreeMap::new();
                let mut fps = vec![];
                let mut evals = 0u64;
                loop {
                    let r = next.fetch_add(1, Ordering::Relaxed);
                    let over = match deadline {
                        Some(d) => Instant::now() > d && r >= rounds,
                        None => r >= rounds,
                    };
                    if over || pool.len() < 3 {
                        break;
                    }
                    let mut rng = SmallRng::seed_from_u64(ctx.case_seed("linsock", r));
                    let key = format!("ls-{}-{}", w, r).into_bytes();
                    let keys = vec![key.clone(), b"ls-other".to_vec()];
                    // initial state
                    setup.rx.clear();
                    let older = ask(&mut setup, &wire::store(op::SET, &key, b"older", 7, 0, 1, 0)).map(|r| r.cas).unwrap_or(0);
                    let mut init_kind = rng.gen_range(0..if alpha.len() == ALPHA_C03.len() { 3 } else { 4 });
                    if real && init_kind == 2 {
                        init_kind = 1; // no virtual clock in the child process
                    }
                    let mut su = Setup { cur: 0xdead, stale: older };
                    let ks = match init_kind {
                        0 => {
                            let _ = ask(&mut setup, &wire::delete(op::DELETE, &key, 2, 0));
                            KS::Absent
                        }
                        1 => {
                            su.cur = ask(&mut setup, &wire::store(op::SET, &key, b"init", 7, 0, 3, 0)).map(|r| r.cas).unwrap_or(0);
                            KS::Present { v: b"init".to_vec(), f: Some(7), c: su.cur, live: true, cl: false }
                        }
                        2 => {
                            su.cur = ask(&mut setup, &wire::store(op::SET, &key, b"old", 7, 5, 3, 0)).map(|r| r.cas).unwrap_or(0);
                            if let Some(s) = &srv {
                                s.stack.timer.advance(10);
                            }
                            KS::Present { v: b"old".to_vec(), f: Some(7), c: su.cur, live: false, cl: false }
                        }
                        _ => {
                            su.cur = ask(&mut setup, &wire::store(op::SET, &key, b"10", 7, 0, 3, 0)).map(|r| r.cas).unwrap_or(0);
                            KS::Present { v: b"10".to_vec(), f: Some(7), c: su.cur, live: true, cl: false }
                        }
                    };
                    let n = rng.gen_range(3..=pool.len().min(8));
                    let progs: Vec<Vec<Cmd>> = (0..n)
                        .map(|ci| (0..rng.gen_range(1..=2)).map(|oi| concrete(alpha[rng.gen_range(0..alpha.len())], ci, oi, &su)).collect())
                        .collect();
                    let ticket = AtomicU64::new(1);
                    let barrier = Barrier::new(n);
                    let hist: Mutex<Vec<HOp>> = Mutex::new(vec![]);
                    std::thread::scope(|s2| {
                        for (ci, (cli, ops)) in pool.iter_mut().zip(progs.iter()).enumerate() {
                            let (ticket, barrier, hist, keys) = (&ticket, &barrier, &hist, &keys);
                            s2.spawn(move || {
                                cli.rx.clear();
                                barrier.wait();
                                for (oi, cmd) in ops.iter().enumerate() {
                                    let cas = cas_of(cmd);
                                    let f = cmd.frame(keys, cas, (ci * 100 + oi) as u32 + 0x100);
                                    let call = ticket.fetch_add(1, Ordering::SeqCst);
                                    let resp = ask(cli, &f);
                                    let ret = ticket.fetch_add(1, Ordering::SeqCst);
                                    hist.lock().unwrap().push(HOp { client: ci, cmd: cmd.clone(), cas, call, ret, resp });
                                }
                            });
                        }
                    });
                    let mut h = hist.into_inner().unwrap();
                    let g = Cmd::Get { key: 0, k: false, quiet: false };
                    let call = ticket.fetch_add(1, Ordering::SeqCst);
                    let resp = ask(&mut setup, &g.frame(&keys, 0, 0x9999));
                    let ret = ticket.fetch_add(1, Ordering::SeqCst);
                    h.push(HOp { client: 99, cmd: g, cas: 0, call, ret, resp });
                    evals += 1;
                    // a loud command without a response here means the connection broke
                    if h.iter().any(|o| o.resp.is_none()) {
                        *local.entry("inconclusive:no-response".into()).or_insert(0) += 1;
                        pool.retain(|c| c.end == crate::sock::End::Open);
                        while pool.len() < 8 {
                            match connect(port) {
                                Ok(c) => pool.push(c),
                                Err(_) => break,
                            }
                        }
                        continue;
                    }
                    let mut overlap = false;
                    for i in 0..h.len() {
                        for j in i + 1..h.len() {
                            if h[i].client != h[j].client && h[i].call < h[j].ret && h[j].call < h[i].ret {
                                overlap = true;
                            }
                        }
                    }
                    if overlap {
                        let mut v: Vec<u8> = vec![];
                        let mut hs: Vec<&HOp> = h.iter().collect();
                        hs.sort_by_key(|o| o.call);
                        for o in &hs {
                            v.extend_from_slice(&[o.client as u8, o.cmd.opcode(), o.resp.as_ref().map(|r| r.status as u8).unwrap_or(0xee)]);
                        }
                        fps.push(fnv(&v));
                    }
                    *local.entry(format!("rounds:init{}", init_kind)).or_insert(0) += 1;
                    *local.entry(format!("rounds:{}", if real { "real-startup-4-listeners" } else { "in-process" })).or_insert(0) += 1;
                    *local.entry("history_ops".into()).or_insert(0) += h.len() as u64;
                    match linearizable(&h, &ks, 2_000_000) {
                        LinRes::Ok => {}
                        LinRes::Budget => {
                            *local.entry("checker_budget_exceeded".into()).or_insert(0) += 1;
                        }
                        LinRes::No { best } => {
                            let mut hs: Vec<&HOp> = h.iter().collect();
                            hs.sort_by_key(|o| o.call);
                            let hb: Vec<String> = hs.iter().map(|o| o.brief()).collect();
                            let tags = tags_for_pub(&h, &ks);
                            shared.lock().unwrap().violation(
                                Viol::new(&tags, "not-linearizable", format!("socket history has no linearization from {:?} (longest linearizable prefix {} of {} ops): {}", ks, best, h.len(), hb.join(" | "))),
                                json!({"engine":"linsock","round":r,"server":if real { "child process: current-thread runtime, 4 listener threads".to_string() } else { format!("in-process, runtime {:?}", flavour) },"init":format!("{:?}",ks),"history":hb}),
                            );
                        }
                    }
                    for p in kv::take_server_panics() {
                        shared.lock().unwrap().violation(Viol::new(&["C10", "C03", "C04"], "panic-in-server", p), json!({"engine":"linsock","round":r}));
                    }
                    if r < 2 {
                        shared.lock().unwrap().sample(json!({"round": r, "init": format!("{:?}", ks), "history": h.iter().map(|o| o.brief()).collect::<Vec<_>>()}));
                    }
                }
                let mut e = shared.lock().unwrap();
                e.evaluations += evals;
                e.merge_counters(&local);
                for f in fps {
                    e.nontrivial.insert(f);
                }
            });
        }
    });
    shared.into_inner().unwrap().finish()
}

// ---------------------------------------------------------------------------
// C05 leg: the real one-second tick counter

pub const RULE_TIMER: &str = "a case is one 50 ms sample of SystemTimer::timestamp() while SystemTimer::run is driven by a tokio runtime (current-thread and multi-thread) for about 4 s: the value never decreases, never jumps by more than the elapsed whole seconds + 1, and stays within one tick of the elapsed real time; non-trivial when the counter changed since the previous sample; distinct by (runtime flavour, counter value)";

pub fn run_timer(ctx: &Ctx) -> i32 {
    let mut ev = Evidence::new(ctx, "exploration", RULE_TIMER);
    ev.assumptions = vec!["real time; tolerance of one tick (a clock wrong by less than a second is not detectable this way)".into()];
    let results: Vec<(Vec<(f64, u64)>, &'static str)> = std::thread::scope(|s| {
        // the third configuration injects a fault: the only runtime thread is held for 4.4 s (a long-running
        // command, a descheduled process); the tick counter is a clock, so it has to catch up with real time
        let hs: Vec<_> = ["current-thread", "multi-thread", "current-thread+stall"]
            .into_iter()
            .map(|fl| {
                s.spawn(move || {
                    let stall = fl.ends_with("+stall");
                    let run_ms: u64 = if stall { 8400 } else { 4600 };
                    let timer = Arc::new(SystemTimer::new());
                    let t2 = timer.clone();
                    let (tx, rx) = std::sync::mpsc::channel::<()>();
                    let th = std::thread::spawn(move || {
                        let rt = if fl.starts_with("current-thread") {
                            tokio::runtime::Builder::new_current_thread().enable_all().build().unwrap()
                        } else {
                            tokio::runtime::Builder::new_multi_thread().worker_threads(2).enable_all().build().unwrap()
                        };
                        rt.block_on(async move {
                            if stall {
                                tokio::spawn(async {
                                    tokio::time::sleep(Duration::from_millis(1200)).await;
                                    std::thread::sleep(Duration::from_millis(4400));
                                });
                            }
                            let _ = tokio::time::timeout(Duration::from_millis(run_ms), t2.run()).await;
                        });
                        let _ = tx.send(());
                    });
                    let t0 = Instant::now();
                    let mut samples = vec![];
                    while t0.elapsed() < Duration::from_millis(run_ms - 300) {
                        samples.push((t0.elapsed().as_secs_f64(), timer.timestamp()));
                        std::thread::sleep(Duration::from_millis(50));
                    }
                    let _ = rx.recv_timeout(Duration::from_secs(3));
                    let _ = th.join();
                    (samples, fl)
                })
            })
            .collect();
        hs.into_iter().map(|h| h.join().unwrap()).collect()
    });
    for (samples, fl) in results {
        let mut prev: Option<(f64, u64)> = None;
        for (t, k) in &samples {
            ev.evaluations += 1;
            // the first tick fires at start-up, so k runs one ahead of the elapsed whole seconds; the sampling
            // thread starts a little after the timer, hence the tolerance of one tick either side
            let fl_t = t.floor() as i64;
            // while the runtime thread is held (1.2 s .. 5.6 s, plus slack to catch up) the counter may lag; it
            // may never run ahead, and afterwards it must be back within a tick of real time
            let stalled_window = fl.ends_with("+stall") && *t >= 1.0 && *t <= 6.3;
            let bad_range = if stalled_window { (*k as i64) > fl_t + 2 } else { (*k as i64) < fl_t - 1 || (*k as i64) > fl_t + 2 };
            let mut bad_step = false;
            if let Some((pt, pk)) = prev {
                if *k < pk || (!fl.ends_with("+stall") && (*k - pk) as f64 > (t - pt).floor() + 1.0) {
                    bad_step = true;
                }
                if *k != pk {
                    ev.nontrivial.insert(fnv(format!("{}:{}", fl, k).as_bytes()));
                }
            }
            if bad_range || bad_step {
                ev.violation(
                    Viol::new(&["C05", "C20"], "tick-counter", format!("{} runtime: at t={:.2}s the counter reads {} (previous sample {:?})", fl, t, k, prev)),
                    json!({"engine":"timer","runtime":fl,"samples":samples.iter().map(|(t,k)| format!("{:.2}:{}", t, k)).collect::<Vec<_>>()}),
                );
                break;
            }
            prev = Some((*t, *k));
        }
        ev.count(&format!("samples:{}", fl), samples.len() as u64);
        ev.sample(json!({"runtime": fl, "samples": samples.iter().step_by(10).map(|(t,k)| format!("t={:.2}s -> {}", t, k)).collect::<Vec<_>>()}));
    }
    ev.finish()
}
