//! `frame` (C09) and `hostile` (C10) engines at the decoder / handler boundary.

use crate::ev::{fnv, Ctx, Evidence, Viol};
use crate::kv::{install_quiet_panic_hook, panic_text};
use crate::l1::{Conn, FeedOut, Stack, StoreKind};
use crate::wire::{self, op, Frame};
use rand::rngs::SmallRng;
use rand::{Rng, SeedableRng};
use serde_json::json;
use std::collections::BTreeMap;
use std::panic::{catch_unwind, AssertUnwindSafe};
use std::sync::atomic::{AtomicU64, Ordering};
use std::sync::Mutex;

/// The harness' own view of where frames begin and end in a byte stream.
#[derive(Clone, Debug)]
pub struct FrameInfo {
    pub start: usize,
    pub end: usize,
    pub opcode: u8,
    pub opaque: u32,
    pub body_len: u32,
    /// header acceptable by the list of C10 (magic, opcode, data type, key<=250, extras<=20, key present, body>=key+extras)
    pub valid: bool,
    pub why_invalid: &'static str,
    pub too_large: bool,
}

pub fn needs_key(o: u8) -> bool {
    use op::*;
    matches!(
        o,
        GET | GETQ | GETK | GETKQ | SET | SETQ | ADD | ADDQ | REPLACE | REPLACEQ | DELETE | DELETEQ | INCR | INCRQ | DECR | DECRQ
            | APPEND | APPENDQ | PREPEND | PREPENDQ
    )
}

pub fn header_verdict(h: &[u8]) -> (bool, &'static str) {
    let magic = h[0];
    let opcode = h[1];
    let key_len = u16::from_be_bytes([h[2], h[3]]) as u32;
    let extras = h[4] as u32;
    let dt = h[5];
    let body = u32::from_be_bytes([h[8], h[9], h[10], h[11]]);
    if magic != 0x80 {
        return (false, "magic");
    }
    if !op::is_known(opcode) {
        return (false, "opcode");
    }
    if dt != 0 {
        return (false, "datatype");
    }
    if key_len > 250 {
        return (false, "keylen");
    }
    if extras > 20 {
        return (false, "extras");
    }
    if needs_key(opcode) && key_len == 0 {
        return (false, "nokey");
    }
    if body < key_len + extras {
        return (false, "shortbody");
    }
    (true, "")
}

pub fn frame_table(stream: &[u8], limit: u32) -> Vec<FrameInfo> {
    let mut v = vec![];
    let mut off = 0usize;
    while off + 24 <= stream.len() {
        let h = &stream[off..off + 24];
        let body = u32::from_be_bytes([h[8], h[9], h[10], h[11]]);
        let (valid, why) = header_verdict(h);
        let end = off + 24 + body as usize;
        v.push(FrameInfo {
            start: off,
            end,
            opcode: h[1],
            opaque: u32::from_be_bytes([h[12], h[13], h[14], h[15]]),
            body_len: body,
            valid,
            why_invalid: why,
            too_large: body > limit,
        });
        if h[0] != 0x80 {
            break; // without the magic byte there is no framing to speak of
        }
        off = end;
    }
    v
}

const KEYS: [&[u8]; 5] = [b"a", b"bb", b"key3", b"\0\xff\x80", b"counter"];

pub fn gen_frame(rng: &mut SmallRng, opaque: u32, limit: u32, allow_closing: bool) -> Frame {
    let key = KEYS[rng.gen_range(0..KEYS.len())];
    let val: Vec<u8> = match rng.gen_range(0..5) {
        0 => vec![],
        1 => b"7".to_vec(),
        2 => (0..rng.gen_range(1..40)).map(|_| rng.gen()).collect(),
        // a value that looks like a frame header: would be executed if framing slips
        3 => wire::store(op::SET, b"slip", b"XX", 0, 0, 0x5115, 0).encode(),
        _ => b"value".to_vec(),
    };
    let cas = if rng.gen_bool(0.1) { rng.gen_range(1..5) } else { 0 };
    let kind = rng.gen_range(0..100);
    match kind {
        0..=11 => wire::get([op::GET, op::GETQ, op::GETK, op::GETKQ][rng.gen_range(0..4)], key, opaque),
        12..=27 => wire::store(
            [op::SET, op::SETQ, op::ADD, op::ADDQ, op::REPLACE, op::REPLACEQ][rng.gen_range(0..6)],
            key,
            &val,
            rng.gen(),
            0,
            opaque,
            cas,
        ),
        28..=33 => wire::delete([op::DELETE, op::DELETEQ][rng.gen_range(0..2)], key, opaque, cas),
        34..=41 => wire::counter(
            [op::INCR, op::INCRQ, op::DECR, op::DECRQ][rng.gen_range(0..4)],
            key,
            rng.gen_range(0..9),
            rng.gen_range(0..9),
            [0, 0, 0xffff_ffff][rng.gen_range(0..3)],
            opaque,
            0,
        ),
        42..=49 => wire::concat([op::APPEND, op::APPENDQ, op::PREPEND, op::PREPENDQ][rng.gen_range(0..4)], key, &val, opaque, cas),
        50..=53 => wire::flush([op::FLUSH, op::FLUSHQ][rng.gen_range(0..2)], [None, Some(0), Some(5)][rng.gen_range(0..3)], opaque),
        54..=59 => wire::simple([op::NOOP, op::VERSION, op::STAT][rng.gen_range(0..3)], opaque),
        60..=65 => {
            let o = op::UNIMPLEMENTED[rng.gen_range(0..op::UNIMPLEMENTED.len())];
            wire::req(o, &[0, 0, 0, 9][..if rng.gen_bool(0.5) { 4 } else { 0 }], key, &val, opaque, 0)
        }
        // framed but not what the opcode expects
        66..=69 => wire::req([op::GET, op::GETK, op::DELETE][rng.gen_range(0..3)], &[1, 2, 3, 4], key, &[], opaque, 0),
        70..=73 => wire::req([op::GET, op::DELETE, op::GETQ][rng.gen_range(0..3)], &[], key, &val, opaque, 0),
        74..=77 => wire::req([op::NOOP, op::VERSION, op::STAT][rng.gen_range(0..3)], &[], &[], &val, opaque, 0),
        78..=79 => wire::req([op::NOOP, op::VERSION][rng.gen_range(0..2)], &[9, 9], key, &val, opaque, 0),
        80..=81 => wire::req(op::FLUSH, &[0, 0][..], &[], &[], opaque, 0),
        82..=83 => wire::req(op::FLUSH, &[0, 0, 0, 0, 0, 0, 0, 1][..], &[], &val, opaque, 0),
        84..=85 => wire::req([op::INCR, op::DECR][rng.gen_range(0..2)], &[0; 20][..], key, &val, opaque, 0),
        86..=87 if allow_closing => wire::req(op::SET, &[], key, &val, opaque, 0), // set without extras
        88..=89 if allow_closing => wire::req([op::INCR, op::DECR][rng.gen_range(0..2)], &[0, 0, 0, 0, 0, 0, 0, 1][..], key, &[], opaque, 0),
        90..=91 if allow_closing => wire::simple([op::QUIT, op::QUITQ][rng.gen_range(0..2)], opaque),
        92..=94 if limit <= 512 => {
            // oversized body (only generated when the limit is small)
            let n = limit as usize + [1usize, 2, 40, limit as usize][rng.gen_range(0..4)];
            let body: Vec<u8> = (0..n).map(|i| (i % 251) as u8).collect();
            let o = [op::SET, op::GET, op::NOOP, op::APPEND, op::INCR][rng.gen_range(0..5)];
            let mut f = wire::req(o, &[], &[], &body, opaque, 0);
            f.key_len = [0u16, 1, 3][rng.gen_range(0..3)];
            f.extras_len = [0u8, 8, 20][rng.gen_range(0..3)];
            f
        }
        95 if allow_closing => {
            let mut f = wire::get(op::GET, key, opaque);
            f.magic = 0x81;
            f
        }
        _ => wire::store(op::SET, key, &val, 1, 0, opaque, 0),
    }
}

/// status of the response the handler produced for an emitted request
fn resp_status(r: &Option<Vec<u8>>) -> Option<u16> {
    r.as_ref().filter(|b| b.len() >= 8).map(|b| u16::from_be_bytes([b[6], b[7]]))
}

/// A request that is answered with one of these was refused, not executed.
pub fn is_refusal(st: Option<u16>) -> bool {
    matches!(st, Some(0x81) | Some(0x83) | Some(0x03) | Some(0x04))
}

#[derive(Debug, PartialEq, Clone)]
struct Outcome {
    responses: Vec<u8>,
    emitted: Vec<(u8, u32, usize, Option<u16>)>,
    closed: Option<String>,
    quit: bool,
    store: Vec<Option<(Vec<u8>, u32)>>,
}

fn run_stream(stream: &[u8], cuts: &[usize], limit: u32) -> Result<Outcome, Viol> {
    let stack = Stack::new(StoreKind::Plain, 100);
    let mut conn = Conn::new(stack.memc.clone(), limit);
    let mut o = Outcome { responses: vec![], emitted: vec![], closed: None, quit: false, store: vec![] };
    let mut prev = 0usize;
    let mut bounds: Vec<usize> = cuts.to_vec();
    bounds.push(stream.len());
    for b in bounds {
        if b <= prev || b > stream.len() {
            continue;
        }
        let chunk = &stream[prev..b];
        prev = b;
        let out: FeedOut = match catch_unwind(AssertUnwindSafe(|| conn.feed(chunk))) {
            Ok(x) => x,
            Err(e) => {
                return Err(Viol::new(&["C10", "C09"], "panic", format!("panic while decoding/handling: {}", panic_text(&e))));
            }
        };
        if out.runaway {
            return Err(Viol::new(&["C10", "C09"], "decode-runaway", "the decoder keeps emitting requests without consuming input".into()));
        }
        o.responses.extend_from_slice(&out.bytes);
        for h in &out.handled {
            o.emitted.push((h.opcode, h.opaque, h.consumed_at_emit, resp_status(&h.response)));
        }
        if out.closed.is_some() {
            o.closed = out.closed;
            break;
        }
        if out.quit {
            o.quit = true;
            break;
        }
    }
    // final store content through a second connection
    let mut c2 = Conn::new(stack.memc.clone(), 1 << 20);
    for k in KEYS.iter().chain([&b"slip"[..]].iter()) {
        let out = c2.feed(&wire::get(op::GET, k, 0).encode());
        let r = wire::parse_all(&out.bytes).ok().and_then(|v| v.into_iter().next());
        o.store.push(r.filter(|r| r.status == 0).map(|r| (r.value.clone(), r.flags().unwrap_or(0))));
    }
    Ok(o)
}

/// frame-boundary monitor: each emitted request corresponds to the next frame of
/// the harness' table and was emitted with exactly that frame's bytes consumed.
fn check_boundaries(o: &Outcome, table: &[FrameInfo]) -> Result<(), Viol> {
    for (i, (opc, opq, consumed, status)) in o.emitted.iter().enumerate() {
        let f = match table.get(i) {
            Some(f) => f,
            None => {
                return Err(Viol::new(&["C09"], "extra-request", format!("request #{} (opcode {:#x} opaque {:#x}) emitted beyond the {} frames of the stream", i, opc, opq, table.len())));
            }
        };
        if *opc != f.opcode || *opq != f.opaque {
            return Err(Viol::new(
                &["C09"],
                "frame-desync",
                format!("request #{} is opcode {:#x} opaque {:#x}, but frame #{} of the stream is opcode {:#x} opaque {:#x}", i, opc, opq, i, f.opcode, f.opaque),
            ));
        }
        let want = if f.too_large { f.start + 24 } else { f.end };
        if *consumed != want {
            return Err(Viol::new(
                &["C09"],
                "frame-bytes",
                format!("request #{} (opcode {:#x}) emitted after consuming {} stream bytes; its frame is [{}, {})", i, opc, consumed, f.start, f.end),
            ));
        }
        if !f.valid && !is_refusal(*status) {
            return Err(Viol::new(&["C10"], "invalid-header-executed", format!("request #{} with invalid header ({}) was executed (response status {:?})", i, f.why_invalid, status)));
        }
    }
    Ok(())
}

pub const RULE_C09: &str = "a case is one (byte stream of 2..12 frames, cut set); the stream is fed to a fresh decoder+handler in the chunks the cut set defines and compared with the unsplit run (response bytes, emitted requests, connection fate, final store) and with the harness' own frame table; non-trivial when the cut set splits at least one frame; distinct by (stream hash, cut set)";

pub fn run_c09(ctx: &Ctx) -> i32 {
    install_quiet_panic_hook();
    let mut ev0 = Evidence::new(ctx, "exploration", RULE_C09);
    ev0.assumptions = vec![
        "L1: Decoder::decode on a caller-owned BytesMut; the harness drops the body of an oversized frame the way the connection layer is specified to (the socket leg exercises the real one)".into(),
        "harness frame table computed from header length fields only".into(),
    ];
    let nstreams = if cfg!(miri) { 3 } else { ctx.n(2000, 6000) };
    let next = AtomicU64::new(0);
    let shared = Mutex::new(ev0);
    let deadline = if ctx.budget_s > 0 { Some(std::time::Instant::now() + std::time::Duration::from_secs(ctx.budget_s)) } else { None };
    let miri = cfg!(miri);
    std::thread::scope(|s| {
        for _ in 0..ctx.workers {
            s.spawn(|| loop {
                let c = next.fetch_add(1, Ordering::Relaxed);
                let over = match deadline {
                    Some(d) => std::time::Instant::now() > d && c >= nstreams,
                    None => c >= nstreams,
                };
                if over {
                    break;
                }
                if let Some(o) = ctx.only_case {
                    if c != o {
                        if c > o {
                            break;
                        }
                        continue;
                    }
                }
                let mut rng = SmallRng::seed_from_u64(ctx.case_seed("frame", c));
                let limit: u32 = [256, 512, 1 << 20][rng.gen_range(0..3)];
                let nf = rng.gen_range(2..=12);
                let closing = rng.gen_bool(0.35);
                let mut stream = vec![];
                for i in 0..nf {
                    gen_frame(&mut rng, 0x1000 + i as u32, limit, closing && i + 2 >= nf).encode_into(&mut stream);
                }
                let table = frame_table(&stream, limit);
                let mut local: BTreeMap<String, u64> = BTreeMap::new();
                let mut fps: Vec<u64> = vec![];
                let mut viols: Vec<(Viol, serde_json::Value)> = vec![];
                let mut evals = 0u64;
                let describe = |cuts: &[usize]| json!({"engine":"frame","case":c,"limit":limit,"stream_hex":wire::hex(&stream),"cuts":cuts,
                    "frames": table.iter().map(|f| format!("[{},{}) {} opq={:#x}{}{}", f.start, f.end, op::name(f.opcode), f.opaque, if f.valid {""} else {" INVALID"}, if f.too_large {" TOOLARGE"} else {""})).collect::<Vec<_>>()});
                let base = match run_stream(&stream, &[], limit) {
                    Ok(o) => o,
                    Err(v) => {
                        let mut e = shared.lock().unwrap();
                        e.evaluations += 1;
                        e.violation(v, describe(&[]));
                        continue;
                    }
                };
                evals += 1;
                if let Err(v) = check_boundaries(&base, &table) {
                    viols.push((v, describe(&[])));
                }
                *local.entry("streams".into()).or_insert(0) += 1;
                *local.entry(format!("streams_closed_by_server:{}", base.closed.is_some())).or_insert(0) += 1;
                for f in &table {
                    *local.entry(format!("frame:{}{}{}", op::name(f.opcode), if f.valid { "" } else { ":invalid" }, if f.too_large { ":toolarge" } else { "" })).or_insert(0) += 1;
                }
                // cut sets
                let n = stream.len();
                let mut cutsets: Vec<Vec<usize>> = vec![];
                if miri {
                    for _ in 0..6 {
                        cutsets.push(vec![rng.gen_range(1..n)]);
                    }
                    cutsets.push((1..n).step_by(7).collect());
                } else {
                    if n <= 1500 {
                        for i in 1..n {
                            cutsets.push(vec![i]);
                        }
                    } else {
                        // long stream: cuts around every frame boundary and header, plus a sample
                        for f in &table {
                            for d in [1usize, 2, 12, 23, 24, 25, 32] {
                                if f.start + d < n {
                                    cutsets.push(vec![f.start + d]);
                                }
                                if f.end > d && f.end - d < n {
                                    cutsets.push(vec![f.end - d]);
                                }
                            }
                        }
                        for _ in 0..300 {
                            cutsets.push(vec![rng.gen_range(1..n)]);
                        }
                    }
                    cutsets.push((1..n).collect());
                    if n <= 120 || (ctx.thorough() && n <= 200) {
                        for i in 1..n {
                            for j in i + 1..n {
                                cutsets.push(vec![i, j]);
                            }
                        }
                    }
                    for _ in 0..50 {
                        let k = rng.gen_range(2..8);
                        let mut cs: Vec<usize> = (0..k).map(|_| rng.gen_range(1..n)).collect();
                        cs.sort();
                        cs.dedup();
                        cutsets.push(cs);
                    }
                    // header|body and mid-header cuts of every frame
                    let mut hb = vec![];
                    for f in &table {
                        hb.push(f.start + 24);
                        hb.push(f.start + 12);
                    }
                    hb.retain(|x| *x > 0 && *x < n);
                    hb.sort();
                    hb.dedup();
                    cutsets.push(hb);
                }
                if ctx.only_case.is_some() {
                    eprintln!("case {} stream {} bytes, {} frames, {} cut sets, limit {}", c, n, table.len(), cutsets.len(), limit);
                }
                let stream_hash = fnv(&stream);
                for cs in &cutsets {
                    if viols.len() >= 2 {
                        break;
                    }
                    evals += 1;
                    let splits = cs.iter().any(|c| !table.iter().any(|f| f.start == *c || f.end == *c));
                    if splits {
                        let mut h = Vec::with_capacity(8 + cs.len() * 2);
                        h.extend_from_slice(&stream_hash.to_le_bytes());
                        for x in cs {
                            h.extend_from_slice(&(*x as u16).to_le_bytes());
                        }
                        fps.push(fnv(&h));
                    }
                    *local.entry(format!("cutsets:{}", match cs.len() { 1 => "single", 2 => "pair", x if x + 1 >= n => "bytewise", _ => "multi" })).or_insert(0) += 1;
                    match run_stream(&stream, cs, limit) {
                        Ok(o) => {
                            *local.entry("outcome_comparisons".into()).or_insert(0) += 1;
                            if let Err(v) = check_boundaries(&o, &table) {
                                viols.push((v, describe(cs)));
                            } else if o != base {
                                let what = if o.responses != base.responses {
                                    format!("response bytes differ ({} vs {} bytes)", o.responses.len(), base.responses.len())
                                } else if o.emitted.len() != base.emitted.len() {
                                    format!("{} requests executed vs {}", o.emitted.len(), base.emitted.len())
                                } else if o.closed.is_some() != base.closed.is_some() || o.quit != base.quit {
                                    format!("connection fate differs: {:?}/{} vs {:?}/{}", o.closed, o.quit, base.closed, base.quit)
                                } else {
                                    "final store content differs".to_string()
                                };
                                viols.push((
                                    Viol::new(&["C09"], "segmentation-dependent", format!("cut set {:?} vs unsplit stream: {}", &cs[..cs.len().min(8)], what)),
                                    describe(cs),
                                ));
                            }
                        }
                        Err(v) => viols.push((v, describe(cs))),
                    }
                }
                let mut e = shared.lock().unwrap();
                e.evaluations += evals;
                e.merge_counters(&local);
                for f in fps {
                    e.nontrivial.insert(f);
                }
                if c < 3 {
                    e.sample(describe(&cutsets.last().cloned().unwrap_or_default()));
                }
                for (v, d) in viols {
                    e.violation(v, d);
                }
            });
        }
    });
    shared.into_inner().unwrap().finish()
}

// ---------------------------------------------------------------------------
// C10 hostile inputs

pub const RULE_C10: &str = "a case is one byte string (a header from the boundary grid opcode x key length x extras length x body length x data type x magic x bytes-available, an extreme-valued well-formed request, random bytes, or a mutation of a valid stream) fed to decode -> handle -> encode under catch_unwind with the harness' own header validator, a decode-call bound, a buffer-capacity bound and the strict response parser; every case is a boundary case by construction; distinct by the hash of (header field classes, bytes-available class) resp. of the bytes";

struct HostileRes {
    viol: Option<Viol>,
    executed: usize,
    closed: bool,
    responses: usize,
}

fn hostile_case(stack: &Stack, bytes: &[u8], chunks: &[usize], limit: u32) -> HostileRes {
    let mut conn = Conn::new(stack.memc.clone(), limit);
    let table = frame_table(bytes, limit);
    let mut res = HostileRes { viol: None, executed: 0, closed: false, responses: 0 };
    let mut prev = 0;
    let mut all_resp = vec![];
    let mut emitted = vec![];
    let mut bounds = chunks.to_vec();
    bounds.push(bytes.len());
    for b in bounds {
        if b <= prev || b > bytes.len() {
            continue;
        }
        let chunk = &bytes[prev..b];
        prev = b;
        let calls0 = conn.decode_calls;
        let out = match catch_unwind(AssertUnwindSafe(|| conn.feed(chunk))) {
            Ok(o) => o,
            Err(e) => {
                res.viol = Some(Viol::new(&["C10"], "panic", format!("panic: {}", panic_text(&e))));
                return res;
            }
        };
        // each decode call either emits a request, asks for more or fails: at most one call per emitted request + 1
        if conn.decode_calls - calls0 > out.handled.len() as u64 + 1 {
            res.viol = Some(Viol::new(&["C10"], "decode-loop", format!("{} decode calls for {} requests", conn.decode_calls - calls0, out.handled.len())));
            return res;
        }
        if out.runaway {
            res.viol = Some(Viol::new(&["C10", "C09"], "decode-runaway", "the decoder keeps emitting requests without consuming input".into()));
            return res;
        }
        all_resp.extend_from_slice(&out.bytes);
        for h in &out.handled {
            emitted.push((h.opcode, h.opaque, h.consumed_at_emit, h.too_large, resp_status(&h.response)));
        }
        if out.closed.is_some() || out.quit {
            res.closed = true;
            break;
        }
    }
    res.executed = emitted.len();
    // validator: nothing with an invalid header reaches the handler
    for (i, (opc, opq, consumed, too_large, status)) in emitted.iter().enumerate() {
        match table.get(i) {
            Some(f) => {
                if !f.valid && !is_refusal(*status) {
                    res.viol = Some(Viol::new(&["C10"], "invalid-header-executed", format!("request #{} (opcode {:#x}) with invalid header ({}) was executed (response status {:?})", i, opc, f.why_invalid, status)));
                    return res;
                }
                if (*opc != f.opcode || *opq != f.opaque || (!*too_large && *consumed != f.end)) {
                    res.viol = Some(Viol::new(&["C09", "C10"], "frame-desync", format!("request #{} opcode {:#x} opaque {:#x} consumed {} does not match frame [{}..{}) opcode {:#x}", i, opc, opq, consumed, f.start, f.end, f.opcode)));
                    return res;
                }
            }
            None => {
                res.viol = Some(Viol::new(&["C09", "C10"], "extra-request", format!("request #{} (opcode {:#x}) beyond the frames of the input", i, opc)));
                return res;
            }
        }
    }
    // a connection never has to retain more than one request within the limit: when the decoder
    // asks for more input it may hold at most limit + header (+ a small constant) bytes
    if conn.max_retained > limit as usize + 24 + 64 {
        res.viol = Some(Viol::new(&["C10"], "retains-oversized-body", format!("the decoder asked for more input while holding {} bytes (item limit {})", conn.max_retained, limit)));
        return res;
    }
    // buffer bound: what the decoder reserves on top of what the caller fed
    let bound = 2 * (bytes.len() + limit as usize) + 8192;
    if conn.max_capacity > bound {
        res.viol = Some(Viol::new(&["C10"], "buffer-bloat", format!("decode buffer capacity grew to {} bytes (fed {} bytes, item limit {})", conn.max_capacity, bytes.len(), limit)));
        return res;
    }
    match wire::parse_all(&all_resp) {
        Ok(rs) => res.responses = rs.len(),
        Err(e) => res.viol = Some(Viol::new(&["C11", "C10"], "resp-grammar", e)),
    }
    res
}

fn grid_case(idx: u64, limit: u32) -> (Vec<u8>, Vec<usize>, [u8; 7]) {
    // mixed radix: opcode 256, keylen 5, extras 6, body 9, dt 2, magic 3, avail 4
    let mut x = idx;
    let opcode = (x % 256) as u8;
    x /= 256;
    let kc = (x % 5) as usize;
    x /= 5;
    let ec = (x % 6) as usize;
    x /= 6;
    let bc = (x % 9) as usize;
    x /= 9;
    let dt = (x % 2) as u8;
    x /= 2;
    let mc = (x % 3) as usize;
    x /= 3;
    let ac = (x % 4) as usize;
    let key_len: u32 = [0, 1, 250, 251, 65535][kc];
    let extras: u32 = [0, 4, 8, 20, 21, 255][ec];
    let ke = key_len + extras;
    let body: u32 = [0, ke.saturating_sub(1), ke, ke + 1, limit - 1, limit, limit + 1, 2 * limit, u32::MAX][bc];
    let magic = [0x80u8, 0x81, 0x00][mc];
    let mut h = Vec::with_capacity(64);
    h.push(magic);
    h.push(opcode);
    h.extend_from_slice(&(key_len as u16).to_be_bytes());
    h.push(extras as u8);
    h.push(dt);
    h.extend_from_slice(&[0, 0]);
    h.extend_from_slice(&body.to_be_bytes());
    h.extend_from_slice(&0xabcd_0123u32.to_be_bytes());
    h.extend_from_slice(&0u64.to_be_bytes());
    let cap = (body as usize).min(3 * limit as usize + 600);
    let avail = match ac {
        0 => 0,
        1 => cap / 2,
        2 => cap,
        _ => cap,
    };
    // body: extras zero, key 'k', value digits (so counters and stores make sense)
    for i in 0..avail {
        let b = if (i as u32) < extras {
            0
        } else if (i as u32) < ke {
            b'k'
        } else {
            b'1'
        };
        h.push(b);
    }
    let mut cuts = vec![];
    if ac == 3 && (body as usize) == cap {
        h.extend_from_slice(&wire::simple(op::NOOP, 0x77).encode());
    }
    if ac >= 1 {
        cuts.push(24);
    }
    (h, cuts, [opcode, kc as u8, ec as u8, bc as u8, dt, mc as u8, ac as u8])
}

pub const GRID: u64 = 256 * 5 * 6 * 9 * 2 * 3 * 4;
pub const GRID2: u64 = 256 * 3 * 22 * 25;

fn extreme_case(rng: &mut SmallRng) -> Vec<u8> {
    let ext = |rng: &mut SmallRng| -> u64 { [0, 1, u64::MAX, u64::MAX - 1, 1 << 63, (1 << 63) - 1, rng.gen()][rng.gen_range(0..7)] };
    let e32 = |rng: &mut SmallRng| -> u32 { [0, 1, u32::MAX, u32::MAX - 1, 1 << 31, 2_592_000, 2_592_001, rng.gen()][rng.gen_range(0..8)] };
    let mut s = vec![];
    let key = KEYS[rng.gen_range(0..KEYS.len())];
    // make the key hold a counter near the edge first, sometimes
    let seedv: &[u8] = [&b"18446744073709551615"[..], b"18446744073709551614", b"0", b"1", b"9223372036854775807", b"x"][rng.gen_range(0..6)];
    // (not always: what earlier cases left under this key - possibly expired since, the worker's clock
    // moves between cases - is a state of its own)
    if rng.gen_bool(0.75) {
        let ttl = if rng.gen_bool(0.3) { e32(rng) } else { 0 };
        wire::store(op::SET, key, seedv, e32(rng), ttl, 1, 0).encode_into(&mut s);
    }
    for i in 0..rng.gen_range(1..6) {
        let f = match rng.gen_range(0..6) {
            0 => wire::counter([op::INCR, op::DECR, op::INCRQ, op::DECRQ][rng.gen_range(0..4)], key, ext(rng), ext(rng), e32(rng), i, ext(rng) * (rng.gen_range(0..3) / 2)),
            1 => wire::store([op::SET, op::ADD, op::REPLACE][rng.gen_range(0..3)], key, seedv, e32(rng), e32(rng), i, ext(rng)),
            2 => wire::concat([op::APPEND, op::PREPEND][rng.gen_range(0..2)], key, b"9", i, ext(rng)),
            3 => wire::delete(op::DELETE, key, i, ext(rng)),
            4 => wire::flush(op::FLUSH, Some(e32(rng)), i),
            _ => wire::get(op::GETK, key, i),
        };
        f.encode_into(&mut s);
    }
    s
}

fn mutate(rng: &mut SmallRng, base: &[u8]) -> Vec<u8> {
    let mut v = base.to_vec();
    for _ in 0..rng.gen_range(1..4) {
        if v.is_empty() {
            break;
        }
        match rng.gen_range(0..6) {
            0 => {
                let i = rng.gen_range(0..v.len());
                v[i] ^= 1 << rng.gen_range(0..8);
            }
            1 => {
                // length field +-1 of some frame header region
                let i = rng.gen_range(0..v.len().min(400));
                v[i] = v[i].wrapping_add(if rng.gen_bool(0.5) { 1 } else { 255 });
            }
            2 => {
                let n = rng.gen_range(0..v.len());
                v.truncate(n);
            }
            3 => {
                let i = rng.gen_range(0..v.len());
                let j = rng.gen_range(i..v.len().min(i + 64));
                let d = v[i..j].to_vec();
                let at = rng.gen_range(0..v.len());
                for (k, b) in d.into_iter().enumerate() {
                    v.insert(at + k, b);
                }
            }
            4 => {
                let i = rng.gen_range(0..v.len());
                v[i] = rng.gen();
            }
            _ => {
                let i = rng.gen_range(0..v.len());
                v.remove(i);
            }
        }
    }
    v
}

pub fn run_c10(ctx: &Ctx) -> i32 {
    install_quiet_panic_hook();
    let mut ev0 = Evidence::new(ctx, "exploration", RULE_C10);
    ev0.assumptions = vec![
        "arithmetic checked: the harness and memcrs are built with overflow-checks and debug assertions on (release leg: wrapping)".into(),
        "L1 boundary; the socket leg checks the per-connection memory bound on the real connection layer".into(),
    ];
    let miri = cfg!(miri);
    let limit: u32 = 1024;
    // grid: thorough = all, quick = all opcodes x a seeded 5% sample of the other dimensions
    let per_op = GRID / 256;
    let sample_every: u64 = if ctx.prop == "C10" { 1 } else { 8 };
    let n_other = if miri { 40 } else { ctx.n(200_000, 1_000_000) };
    let next = AtomicU64::new(0);
    let progress = AtomicU64::new(0);
    let current: Mutex<Vec<Option<String>>> = Mutex::new(vec![None; ctx.workers]);
    let shared = Mutex::new(ev0);
    let grid_total = if miri { 600u64 } else { GRID };
    let grid2_total = if miri { 300u64 } else { GRID2 };
    let total = grid_total + grid2_total + n_other;
    let done = AtomicU64::new(0);
    std::thread::scope(|s| {
        for w in 0..ctx.workers {
            let (next, progress, current, shared, done) = (&next, &progress, &current, &shared, &done);
            s.spawn(move || {
                // every other worker executes against a store with random eviction and a small limit: what a
                // hostile client can do to the eviction loop (requests that are accounted but store nothing,
                // overwrites, expiries) belongs to "never panics or loops" as well
                let stack = Stack::new(if w % 2 == 1 { StoreKind::Random([600u64, 2000, 20_000][(w / 2) % 3]) } else { StoreKind::Plain }, 50);
                let mut local: BTreeMap<String, u64> = BTreeMap::new();
                let mut fps: Vec<u64> = vec![];
                let mut evals = 0u64;
                let mut rngw = SmallRng::seed_from_u64(ctx.case_seed("hostile-w", w as u64));
                let offset = ctx.seed % sample_every;
                loop {
                    let c = next.fetch_add(4096, Ordering::Relaxed);
                    if c >= total {
                        break;
                    }
                    for idx in c..(c + 4096).min(total) {
                        let (bytes, cuts, class): (Vec<u8>, Vec<usize>, Vec<u8>) = if idx < grid_total {
                            let gi = if miri { idx.wrapping_mul(1_000_003).wrapping_add(ctx.seed.wrapping_mul(7_919)) % GRID } else { idx };
                            let other = gi / 256;
                            if !miri && (other + (gi % 256)) % sample_every != offset % sample_every {
                                continue;
                            }
                            let _ = per_op;
                            let (b, cu, cl) = grid_case(gi, limit);
                            (b, cu, cl.to_vec())
                        } else if idx < grid_total + grid2_total {
                            // second grid: every opcode x key length x extras length 0..21 x body = key + 0..24, so
                            // that the body length walks across each opcode's own fixed-size extras
                            let gi = if miri { (idx - grid_total).wrapping_mul(1_000_003).wrapping_add(ctx.seed.wrapping_mul(7_919)) % GRID2 } else { idx - grid_total };
                            let opcode = (gi % 256) as u8;
                            let mut x = gi / 256;
                            let key_len = [1u32, 3, 250][(x % 3) as usize];
                            x /= 3;
                            let extras = (x % 22) as u32;
                            x /= 22;
                            let body = key_len + (x % 25) as u32;
                            let mut h = Vec::with_capacity(64 + body as usize);
                            h.push(0x80);
                            h.push(opcode);
                            h.extend_from_slice(&(key_len as u16).to_be_bytes());
                            h.push(extras as u8);
                            h.push(0);
                            h.extend_from_slice(&[0, 0]);
                            h.extend_from_slice(&body.to_be_bytes());
                            h.extend_from_slice(&0xabcd_0124u32.to_be_bytes());
                            h.extend_from_slice(&0u64.to_be_bytes());
                            for i in 0..body {
                                h.push(if i < extras { 0 } else if i < extras + key_len { b'k' } else { b'1' });
                            }
                            h.extend_from_slice(&wire::simple(op::NOOP, 0x77).encode());
                            (h, vec![24], vec![opcode, 100 + (key_len % 7) as u8, extras as u8, (body - key_len) as u8, 0, 0, 9])
                        } else {
                            let mut rng = SmallRng::seed_from_u64(ctx.case_seed("hostile", idx));
                            let k = idx % 4;
                            let b = match k {
                                0 => extreme_case(&mut rng),
                                1 => (0..rng.gen_range(0..200)).map(|_| rng.gen()).collect(),
                                2 => {
                                    let mut s = vec![0x80u8, rng.gen_range(0..0x28)];
                                    s.extend((0..rng.gen_range(0..120)).map(|_| if rng.gen_bool(0.6) { 0 } else { rng.gen() }));
                                    s
                                }
                                _ => {
                                    let mut s = vec![];
                                    for i in 0..rng.gen_range(1..6) {
                                        gen_frame(&mut rng, i, limit, true).encode_into(&mut s);
                                    }
                                    mutate(&mut rng, &s)
                                }
                            };
                            let cu = if rng.gen_bool(0.3) && b.len() > 2 { vec![rng.gen_range(1..b.len())] } else { vec![] };
                            (b, cu, vec![0xf0 + k as u8])
                        };
                        {
                            let mut cur = current.lock().unwrap();
                            cur[w] = Some(wire::hex(&bytes[..bytes.len().min(64)]));
                        }
                        // time passes between cases on the worker's store: items left behind with a TTL expire
                        // without having been touched
                        if idx >= grid_total && rngw.gen_ratio(1, 5) {
                            stack.timer.advance([1u64, 1, 2, 5, 40, 2_592_001][rngw.gen_range(0..6)]);
                            *local.entry("clock_advances_between_cases".into()).or_insert(0) += 1;
                        }
                        let r = hostile_case(&stack, &bytes, &cuts, limit);
                        progress.fetch_add(1, Ordering::Relaxed);
                        evals += 1;
                        if idx < grid_total {
                            fps.push(fnv(&class));
                            *local.entry(format!("grid:magic{}:dt{}", class[5], class[4])).or_insert(0) += 1;
                        } else if idx < grid_total + grid2_total {
                            fps.push(fnv(&class));
                            *local.entry("grid2:opcode x key{1,3,250} x extras 0..21 x body key+0..24".into()).or_insert(0) += 1;
                        } else {
                            fps.push(fnv(&bytes));
                            *local.entry(format!("kind:{}", ["extreme-values", "random-bytes", "sparse-header", "mutated-stream"][(idx % 4) as usize])).or_insert(0) += 1;
                        }
                        *local.entry(format!("requests_executed:{}", r.executed.min(3))).or_insert(0) += 1;
                        *local.entry(format!("closed:{}", r.closed)).or_insert(0) += 1;
                        *local.entry("responses_parsed".into()).or_insert(0) += r.responses as u64;
                        if let Some(v) = r.viol {
                            let mut e = shared.lock().unwrap();
                            e.violation(v, json!({"engine":"hostile","index":idx,"limit":limit,"bytes_hex":wire::hex(&bytes[..bytes.len().min(4096)]),"len":bytes.len(),"cuts":cuts}));
                        }
                        if rngw.gen_ratio(1, 50_000) {
                            let mut e = shared.lock().unwrap();
                            e.sample(json!({"index":idx,"bytes_hex":wire::hex(&bytes[..bytes.len().min(96)]),"len":bytes.len(),"cuts":cuts,"executed":r.executed,"closed":r.closed}));
                        }
                    }
                }
                let mut e = shared.lock().unwrap();
                e.evaluations += evals;
                e.merge_counters(&local);
                for f in fps {
                    e.nontrivial.insert(f);
                }
                done.fetch_add(1, Ordering::Relaxed);
            });
        }
        // watchdog: a decode/handle that never returns is a hang (C10)
        let mut last = 0;
        let mut still = 0;
        loop {
            std::thread::sleep(std::time::Duration::from_millis(500));
            if done.load(Ordering::Relaxed) as usize == ctx.workers {
                break;
            }
            let p = progress.load(Ordering::Relaxed);
            if p == last {
                still += 1;
            } else {
                still = 0;
                last = p;
            }
            if still >= if miri { 1200 } else { 60 } {
                let cur = current.lock().unwrap().clone();
                let mut e = shared.lock().unwrap();
                e.violation(
                    Viol::new(&["C10"], "hang", "no case completed for 30 s: decode/handle does not return".into()),
                    json!({"engine":"hostile","in_flight":cur}),
                );
                let ev = std::mem::replace(&mut *e, Evidence::new(ctx, "exploration", RULE_C10));
                std::process::exit(ev.finish());
            }
        }
    });
    let mut ev = shared.into_inner().unwrap();
    ev.exhaustive = false;
    ev.extra.insert("grid_size".into(), json!(GRID));
    ev.extra.insert("grid2_size".into(), json!(GRID2));
    ev.extra.insert("grid_sampling".into(), json!(format!("1 of every {}", sample_every)));
    ev.finish()
}
