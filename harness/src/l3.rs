//! L3 engines over loopback TCP to an in-process MemcacheTcpServer:
//! `pipe` (C12), `toolarge` (C13), socket legs of C09 / C10 / C11.

use crate::ev::{fnv, Ctx, Evidence, Viol};
use crate::frame;
use crate::kv::{self, install_quiet_panic_hook};
use crate::l1::StoreKind;
use crate::model::{CasArg, Cmd, Model};
use crate::sock::{conn_log, Cli, End, Server, SrvCfg};
use crate::wire::{self, op, st, ErrTexts, ReqView, Resp};
use rand::rngs::SmallRng;
use rand::{Rng, SeedableRng};
use serde_json::json;
use std::collections::{BTreeMap, HashMap};
use std::sync::atomic::{AtomicU64, Ordering};
use std::sync::Mutex;
use std::time::{Duration, Instant};

pub struct SockOut {
    pub rx: Vec<u8>,
    pub end: End,
    /// (opcode, bytes buffered) of every frame the connection layer returned
    pub frames: Vec<(u8, u64)>,
    pub reads: Vec<u64>,
    pub unconfirmed: u64,
    pub server_exited: bool,
    pub elapsed_ms: u64,
    pub chunks_sent: usize,
    pub timeline: Vec<(&'static str, u64, u64)>,
    pub t_connect_us: u64,
    pub steps: Vec<String>,
    /// (bytes sent, response bytes received, response bytes owed) at a chunk boundary where the server
    /// was idle in read although completely sent requests were still unanswered one second later
    pub stalled: Option<(usize, usize, usize)>,
}

/// Sends `stream` cut at `cuts`, each chunk only after the previous one was
/// consumed by the server; collects everything the server answers.
pub const SENTINEL: u32 = 0x5e47_1e1;

/// `stream` should end with a noop carrying the SENTINEL opaque unless the server is expected to
/// close the connection: the driver reads until that response or the end of the connection arrives
/// (data the server has written may still be in flight when the server is already idle again).
pub fn run_socket_stream(srv: &Server, stream: &[u8], cuts: &[usize], expect_close: bool) -> Result<SockOut, String> {
    run_socket_stream_owed(srv, stream, cuts, expect_close, None)
}

/// like `run_socket_stream_owed`, with the debt expressed as the opaques of the loud requests wholly
/// contained in the first n stream bytes (each must have been answered when the server is idle)
pub fn run_socket_stream_opaques(srv: &Server, stream: &[u8], cuts: &[usize], owed: &dyn Fn(usize) -> Vec<u32>) -> Result<SockOut, String> {
    run_socket_stream_owed_impl(srv, stream, cuts, false, None, Some(owed))
}

/// `owed(n)` = response bytes the requests wholly contained in the first n stream bytes produce (known
/// from an unsplit run of the same stream). At every chunk boundary the server is waited for until it is
/// idle in read; if it then still owes responses and they do not arrive within a second, a completely
/// sent request is being sat on.
pub fn run_socket_stream_owed(srv: &Server, stream: &[u8], cuts: &[usize], expect_close: bool, owed: Option<&dyn Fn(usize) -> usize>) -> Result<SockOut, String> {
    run_socket_stream_owed_impl(srv, stream, cuts, expect_close, owed, None)
}

fn run_socket_stream_owed_impl(
    srv: &Server,
    stream: &[u8],
    cuts: &[usize],
    expect_close: bool,
    owed: Option<&dyn Fn(usize) -> usize>,
    owed_opq: Option<&dyn Fn(usize) -> Vec<u32>>,
) -> Result<SockOut, String> {
    // both kinds of debt are reduced to (have, want): bytes, or number of owed opaques answered
    let debt = |rx: &[u8], n: usize| -> Option<(usize, usize)> {
        if let Some(f) = owed {
            return Some((rx.len(), f(n)));
        }
        if let Some(f) = owed_opq {
            let want = f(n);
            let got: std::collections::HashSet<u32> = parse_prefix(rx).iter().map(|r| r.opaque).collect();
            return Some((want.iter().filter(|o| got.contains(o)).count(), want.len()));
        }
        None
    };
    let mut stalled: Option<(usize, usize, usize)> = None;
    let mut c = Cli::connect(srv.port)?;
    let t_start = Instant::now();
    let t_connect_us = crate::sock::now_us();
    let mut chunks_sent = 0;
    let mut steps: Vec<String> = vec![];
    let mut prev = 0;
    let mut bounds = cuts.to_vec();
    bounds.push(stream.len());
    for b in bounds {
        if b <= prev || b > stream.len() {
            continue;
        }
        let ok = c.send_chunk(&stream[prev..b]);
        chunks_sent += 1;
        prev = b;
        let o = conn_log().get(c.port);
        if steps.len() < 12 {
            steps.push(format!("chunk..{} ok={} end={:?} exited={} read_total={} sent={} serial={} floor={} key={:#x} at+{}us", b, ok, c.end, o.exited, o.read_total, c.sent, o.serial, o.floor, c.port, t_start.elapsed().as_micros()));
        }
        if !ok && c.end != End::Open {
            break;
        }
        if conn_log().get(c.port).exited {
            // the server is done with this connection: the rest cannot be delivered meaningfully
            break;
        }
        if let (Some((_, want)), None) = (debt(&c.rx, b), stalled) {
            let have = |c: &Cli| debt(&c.rx, b).map(|x| x.0).unwrap_or(0);
            // only an idle server (blocked in the frame loop's read with everything sent so far taken out
            // of the socket) that still owes responses a second later is sitting on a request; a server
            // that is busy (e.g. discarding an oversized body) is simply not asked
            let t0 = Instant::now();
            let sent = c.sent;
            let mut idle_since: Option<Instant> = None;
            while have(&c) < want && c.end == End::Open && t0.elapsed() < Duration::from_millis(1500) {
                c.drain();
                let o = conn_log().get(c.port);
                if o.exited {
                    break;
                }
                if o.waiting && o.read_total >= sent {
                    let since = *idle_since.get_or_insert_with(Instant::now);
                    if since.elapsed() > Duration::from_secs(1) {
                        c.drain();
                        if have(&c) < want {
                            stalled = Some((b, have(&c), want));
                        }
                        break;
                    }
                } else if idle_since.is_none() && t0.elapsed() > Duration::from_millis(20) {
                    break; // busy: no verdict at this boundary
                }
                std::thread::sleep(Duration::from_micros(200));
            }
        }
    }
    c.wait_quiescent(Duration::from_secs(3));
    let obs = conn_log().get(c.port);
    let _ = expect_close;
    if obs.exited {
        c.read_to_end(Duration::from_millis(1000));
    } else {
        let t0 = Instant::now();
        loop {
            c.drain();
            if c.end != End::Open || parse_prefix(&c.rx).iter().any(|r| r.opaque == SENTINEL) {
                break;
            }
            if conn_log().get(c.port).exited {
                c.read_to_end(Duration::from_millis(1000));
                break;
            }
            if t0.elapsed() > Duration::from_secs(4) {
                break;
            }
            std::thread::sleep(Duration::from_micros(200));
        }
    }
    let obs = conn_log().get(c.port);
    Ok(SockOut { rx: c.rx.clone(), end: c.end, frames: obs.frames, reads: obs.reads, unconfirmed: c.unconfirmed_splits, server_exited: obs.exited, elapsed_ms: t_start.elapsed().as_millis() as u64, chunks_sent, timeline: obs.timeline.clone(), t_connect_us, steps, stalled })
}

/// one request/response exchange on an open observer connection
pub fn ask(c: &mut Cli, f: &wire::Frame) -> Option<Resp> {
    let before = crate::sock::count_frames(&c.rx);
    c.send_chunk(&f.encode());
    // earlier responses may still be in flight: wait for the one that echoes this request's opaque
    let t0 = Instant::now();
    let mut want = before + 1;
    loop {
        c.read_frames(want, Duration::from_millis(500));
        let all = parse_prefix(&c.rx);
        if let Some(r) = all.iter().skip(before).find(|r| r.opaque == f.opaque) {
            return Some(r.clone());
        }
        if c.end != End::Open || t0.elapsed() > Duration::from_secs(4) {
            return all.into_iter().nth(before);
        }
        want = all.len() + 1;
    }
}

pub fn parse_prefix(buf: &[u8]) -> Vec<Resp> {
    let mut out = vec![];
    let mut b = buf;
    while let Ok(Some((r, n))) = wire::parse_one(b) {
        out.push(r);
        b = &b[n..];
    }
    out
}

// ---------------------------------------------------------------------------
// C12 pipelining

pub const RULE_C12: &str = "a case is one pipeline of 5..60 requests (opaque = position; loud and quiet variants of every opcode incl. touch/GAT/SASL/stat, quit or quitq at a random position followed by requests that must not run) sent over a real socket in 1, 2 or many segments; responses are parsed strictly, must carry strictly increasing opaques, and are fed with their requests in arrival order to M-KV (which also enforces the response-presence rules); EOF rules after quit are checked and the effect of trailing requests is looked up through a second connection; non-trivial when the pipeline has >=1 quiet and >=1 loud request; distinct by (opcode sequence, segmentation kind)";

fn concretise(cmd: &mut Cmd, rng: &mut SmallRng) {
    let fix = |c: &mut CasArg, rng: &mut SmallRng| {
        if !matches!(c, CasArg::Zero | CasArg::Raw(_)) {
            *c = if rng.gen_bool(0.5) { CasArg::Zero } else { CasArg::Raw(rng.gen_range(1..40)) };
        }
    };
    match cmd {
        Cmd::Store { cas, .. } | Cmd::Concat { cas, .. } | Cmd::Counter { cas, .. } | Cmd::Delete { cas, .. } => fix(cas, rng),
        _ => {}
    }
}

pub fn run_c12(ctx: &Ctx) -> i32 {
    install_quiet_panic_hook();
    let mut ev0 = Evidence::new(ctx, "exploration", RULE_C12);
    ev0.assumptions = vec![
        "in-process MemcacheTcpServer (public API) on loopback with a virtual clock; client = blocking std TcpStream".into(),
        "RST-truncation rule (DESIGN 4.5): a response stream cut short by ECONNRESET is inconclusive, not a violation".into(),
    ];
    let shared = Mutex::new(ev0);
    let n = ctx.n(3000, 10000);
    let next = AtomicU64::new(0);
    let deadline = if ctx.budget_s > 0 { Some(Instant::now() + Duration::from_secs(ctx.budget_s)) } else { None };
    std::thread::scope(|s| {
        for w in 0..ctx.workers {
            let (next, shared) = (&next, &shared);
            s.spawn(move || {
                let cfg = SrvCfg { workers: if w % 3 == 2 { Some(2) } else { None }, item_limit: 4096, ..Default::default() };
                let srv = match Server::start(cfg) {
                    Ok(s) => s,
                    Err(e) => {
                        shared.lock().unwrap().inconclusive.push(format!("server start failed: {}", e));
                        return;
                    }
                };
                let mut local: BTreeMap<String, u64> = BTreeMap::new();
                let mut fps = vec![];
                let mut evals = 0u64;
                let mut texts = ErrTexts::default();
                let prof = kv::Profile { nkeys: 4, w: [22, 22, 8, 8, 10, 10, 8, 2, 10, 0], p_cas: 0.2, p_quiet: 0.45, p_numeric: 0.3, p_boundary: 0.0, p_ttl: 0.0, len: (5, 60) };
                loop {
                    let c = next.fetch_add(1, Ordering::Relaxed);
                    let over = match deadline {
                        Some(d) => Instant::now() > d && c >= n,
                        None => c >= n,
                    };
                    if over {
                        break;
                    }
                    if let Some(o) = ctx.only_case {
                        if c != o {
                            if c > o {
                                break;
                            }
                            continue;
                        }
                    }
                    let mut rng = SmallRng::seed_from_u64(ctx.case_seed("pipe", c));
                    // unique keys per pipeline (the server is shared by the worker's pipelines)
                    let keys: Vec<Vec<u8>> = (0..prof.nkeys).map(|i| format!("p{}-{}-k{}", w, c, i).into_bytes()).collect();
                    let mut m = Model::new(keys.len(), srv.stack.timer.now());
                    let len = rng.gen_range(prof.len.0..=prof.len.1);
                    let mut prog: Vec<Cmd> = vec![];
                    for _ in 0..len {
                        let mut cmd = kv::gen_cmd(&mut rng, &prof, &m, &keys, 4096);
                        if matches!(cmd, Cmd::Flush { .. } | Cmd::Advance(_)) {
                            cmd = Cmd::Noop; // a flush would hit the other workers' pipelines on a shared store: each worker has its own server, but keep pipelines independent
                        }
                        concretise(&mut cmd, &mut rng);
                        prog.push(cmd);
                    }
                    // now and then one request whose body exceeds the item limit (4096): it must be answered
                    // 'too large' exactly once and the pipeline must go on
                    let big_at = if rng.gen_bool(0.2) { Some(rng.gen_range(0..prog.len())) } else { None };
                    // quit / quitq
                    let quit_at = if rng.gen_bool(0.4) { Some(rng.gen_range(0..=prog.len())) } else { None };
                    let quiet_quit = rng.gen_bool(0.5);
                    let mut frames: Vec<wire::Frame> = vec![];
                    let mut reqs: Vec<Option<(Cmd, u64)>> = vec![];
                    let mut after_keys: Vec<Vec<u8>> = vec![];
                    let mut too_large_pos: Option<usize> = None;
                    for (i, cmd) in prog.iter().enumerate() {
                        if quit_at == Some(i) {
                            frames.push(wire::simple(if quiet_quit { op::QUITQ } else { op::QUIT }, frames.len() as u32));
                            reqs.push(None);
                        }
                        let cas = match cmd.cas_arg() {
                            Some(CasArg::Raw(x)) => *x,
                            _ => 0,
                        };
                        if quit_at.map(|q| i >= q).unwrap_or(false) {
                            // after the quit: stores on unique keys, so that execution would be visible
                            let k = format!("after-{}-{}-{}", w, c, i).into_bytes();
                            frames.push(wire::store(op::SET, &k, b"must-not-run", 0, 0, frames.len() as u32, 0));
                            after_keys.push(k);
                            reqs.push(None);
                            if after_keys.len() >= 6 {
                                break;
                            }
                        } else if big_at == Some(i) {
                            if rng.gen_bool(0.5) {
                                // a command that succeeds silently right in front of it (same segment, mostly)
                                let qk = format!("quiet-before-big-{}-{}", w, c).into_bytes();
                                frames.push(wire::store(op::SETQ, &qk, b"q", 0, 0, frames.len() as u32, 0));
                                reqs.push(None);
                            }
                            let o = [op::SET, op::SETQ, op::APPEND, op::GET, op::ADDQ][rng.gen_range(0..5)];
                            let v = vec![b'B'; rng.gen_range(4097..9000)];
                            frames.push(wire::store(o, &keys[0], &v, 0, 0, frames.len() as u32, 0));
                            reqs.push(None);
                            too_large_pos = Some(frames.len() - 1);
                        } else {
                            frames.push(cmd.frame(&keys, cas, frames.len() as u32));
                            reqs.push(Some((cmd.clone(), cas)));
                        }
                    }
                    if quit_at == Some(prog.len()) && !frames.iter().any(|f| f.opcode == op::QUIT || f.opcode == op::QUITQ) {
                        frames.push(wire::simple(if quiet_quit { op::QUITQ } else { op::QUIT }, frames.len() as u32));
                        reqs.push(None);
                    }
                    let quit_pos = frames.iter().position(|f| f.opcode == op::QUIT || f.opcode == op::QUITQ);
                    if quit_pos.is_none() {
                        frames.push(wire::simple(op::NOOP, SENTINEL));
                        reqs.push(None);
                    }
                    let mut stream = vec![];
                    let mut offs = vec![];
                    for f in &frames {
                        offs.push(stream.len());
                        f.encode_into(&mut stream);
                    }
                    // segmentation: keep what follows a quit in the same chunk as the quit (RST rule)
                    let seg = rng.gen_range(0..4);
                    let limit_cut = quit_pos.map(|q| offs[q]).unwrap_or(stream.len());
                    let cuts: Vec<usize> = match seg {
                        0 => vec![],
                        1 => vec![rng.gen_range(1..stream.len().max(2))],
                        2 => offs.iter().copied().filter(|o| *o > 0).collect(),
                        _ => {
                            let k = rng.gen_range(2..10);
                            let mut v: Vec<usize> = (0..k).map(|_| rng.gen_range(1..stream.len().max(2))).collect();
                            v.sort();
                            v.dedup();
                            v
                        }
                    }
                    .into_iter()
                    .filter(|x| *x <= limit_cut && *x < stream.len())
                    .collect();
                    // the quit and what follows it travel in one small final chunk, so that the server has
                    // read all of it when it closes (otherwise the kernel answers the close with RST)
                    let mut cuts = cuts;
                    if quit_pos.is_some() && limit_cut > 0 && !cuts.contains(&limit_cut) {
                        cuts.push(limit_cut);
                        cuts.sort();
                    }
                    evals += 1;
                    let describe = |extra: serde_json::Value| json!({"engine":"pipe","case":c,"worker":w,"requests":frames.iter().map(|f| format!("{}#{}", op::name(f.opcode), f.opaque)).collect::<Vec<_>>(),"cuts":cuts,"stream_hex":wire::hex(&stream[..stream.len().min(3000)]),"detail":extra,"replay_cmd":format!("/verif/check C12 replay --case {}", c)});
                    // debt at a chunk boundary: every loud request that was completely sent (and is not behind a
                    // quit) must have been answered by the time the server is idle again
                    let ends: Vec<usize> = offs.iter().skip(1).copied().chain(std::iter::once(stream.len())).collect();
                    let owed = |n: usize| -> Vec<u32> {
                        frames
                            .iter()
                            .enumerate()
                            .filter(|(i, f)| ends[*i] <= n && !op::is_quiet(f.opcode) && quit_pos.map(|q| *i <= q).unwrap_or(true))
                            .map(|(_, f)| f.opaque)
                            .collect()
                    };
                    let out = match run_socket_stream_opaques(&srv, &stream, &cuts, &owed) {
                        Ok(o) => o,
                        Err(e) => {
                            *local.entry("inconclusive:connect".into()).or_insert(0) += 1;
                            let _ = e;
                            continue;
                        }
                    };
                    if let Some((sent, got, want)) = out.stalled {
                        // when the batch ends in a quiet command, what is withheld differs from the loud
                        // variant of the same batch only because of the quiet command's silence (C19)
                        let last_quiet = frames.iter().enumerate().filter(|(i, _)| ends[*i] <= sent).last().map(|(_, f)| op::is_quiet(f.opcode)).unwrap_or(false);
                        let tags: &[&'static str] = if last_quiet { &["C12", "C10", "C09", "C19"] } else { &["C12", "C10", "C09"] };
                        shared.lock().unwrap().violation(
                            Viol::new(tags, "complete-request-unanswered", format!("after {} stream bytes the server is idle in read but only {} of the {} loud requests sent completely so far have been answered", sent, got, want)),
                            describe(json!({"end": format!("{:?}", out.end)})),
                        );
                        continue;
                    }
                    *local.entry(format!("segmentation:{}", ["one", "two", "per-request", "random"][seg])).or_insert(0) += 1;
                    *local.entry("unconfirmed_chunk_boundaries".into()).or_insert(0) += out.unconfirmed;
                    let mut viols: Vec<Viol> = vec![];
                    // strict parsing (C11)
                    let resps = match wire::parse_all(&out.rx) {
                        Ok(r) => r,
                        Err(e) => {
                            if out.end == End::Reset {
                                *local.entry("inconclusive:reset-truncated".into()).or_insert(0) += 1;
                                continue;
                            }
                            viols.push(Viol::new(&["C11", "C12"], "resp-grammar", e));
                            vec![]
                        }
                    };
                    *local.entry("responses".into()).or_insert(0) += resps.len() as u64;
                    // opaques strictly increasing and within range
                    let mut by_pos: HashMap<u32, Vec<Resp>> = HashMap::new();
                    let mut truncated = false;
                    let mut last: i64 = -1;
                    for r in &resps {
                        let is_stat = frames.get(r.opaque as usize).map(|f| f.opcode == op::STAT).unwrap_or(false);
                        if r.opaque == SENTINEL {
                            by_pos.entry(r.opaque).or_default().push(r.clone());
                            continue;
                        }
                        if (r.opaque as i64) < last || ((r.opaque as i64) == last && !is_stat) {
                            viols.push(Viol::new(&["C12"], "response-order", format!("response opaque {} after {}: responses are not in request order", r.opaque, last)));
                            break;
                        }
                        last = r.opaque as i64;
                        by_pos.entry(r.opaque).or_default().push(r.clone());
                    }
                    if viols.is_empty() {
                        for (i, f) in frames.iter().enumerate() {
                            let rs = by_pos.remove(&f.opaque).unwrap_or_default();
                            if f.opaque == SENTINEL {
                                if rs.len() != 1 && out.end != End::Reset {
                                    viols.push(Viol::new(&["C12"], "no-response", format!("the closing noop of the pipeline got {} responses: the pipeline stalled (responses so far {})", rs.len(), resps.len())));
                                    break;
                                }
                                continue;
                            }
                            let past_quit = quit_pos.map(|q| i > q).unwrap_or(false);
                            if past_quit {
                                if !rs.is_empty() {
                                    viols.push(Viol::new(&["C12"], "answered-after-quit", format!("request #{} ({}) placed after quit was answered", i, op::name(f.opcode))));
                                    break;
                                }
                                continue;
                            }
                            let rq = ReqView::of(f);
                            let mut bad = false;
                            for r in &rs {
                                if let Err(e) = wire::check_resp(&rq, r, &mut texts) {
                                    viols.push(Viol::new(&["C11", "C12"], "resp-shape", format!("request #{} {}: {}", i, op::name(f.opcode), e)));
                                    bad = true;
                                }
                            }
                            if bad {
                                break;
                            }
                            if rs.len() > 1 && f.opcode != op::STAT {
                                viols.push(Viol::new(&["C12", "C11"], "multi-response", format!("request #{} {} got {} responses", i, op::name(f.opcode), rs.len())));
                                break;
                            }
                            if Some(i) == too_large_pos {
                                *local.entry("oversized_requests".into()).or_insert(0) += 1;
                                if out.end == End::Reset && rs.is_empty() {
                                    truncated = true;
                                    break;
                                }
                                if rs.len() != 1 || rs[0].status != st::TOO_LARGE {
                                    let after_quiet = i > 0 && matches!(frames[i - 1].opcode, op::SETQ | op::ADDQ | op::GETQ | op::GETKQ | op::DELETEQ | op::APPENDQ);
                                    let tags: &[&'static str] = if after_quiet { &["C12", "C13", "C19"] } else { &["C12", "C13"] };
                                    viols.push(Viol::new(tags, "oversized-in-pipeline", format!("oversized {} at position {} answered {:?}", op::name(f.opcode), i, rs.iter().map(|r| r.brief()).collect::<Vec<_>>())));
                                    break;
                                }
                                continue;
                            }
                            if Some(i) == quit_pos {
                                let want = if f.opcode == op::QUIT { 1 } else { 0 };
                                if rs.len() != want && out.end != End::Reset {
                                    viols.push(Viol::new(&["C12"], "quit-response", format!("{} got {} responses", op::name(f.opcode), rs.len())));
                                    break;
                                }
                                continue;
                            }
                            if let Some((cmd, cas)) = &reqs[i] {
                                if out.end == End::Reset && rs.is_empty() {
                                    // lost to the reset: nothing can be said about this and later requests
                                    *local.entry("inconclusive:reset-truncated".into()).or_insert(0) += 1;
                                    truncated = true;
                                    break;
                                }
                                *local.entry(format!("req:{}:{}", op::name(f.opcode), rs.first().map(|r| format!("{:#x}", r.status)).unwrap_or_else(|| "silent".into()))).or_insert(0) += 1;
                                if let Err(mut v) = m.apply(cmd, *cas, rs.first()) {
                                    if !v.props.contains(&"C12") {
                                        v.props.push("C12"); // in-order execution is what makes the model's prediction apply
                                    }
                                    // one connection, one order: an outcome that the client's own order does not
                                    // explain also refutes C03's "respects each client's own order", and when quiet
                                    // commands precede it, "only the responses differ" (C19)
                                    if !v.props.contains(&"C03") {
                                        v.props.push("C03");
                                    }
                                    if frames[..i].iter().any(|g| matches!(g.opcode, op::SETQ | op::ADDQ | op::REPLACEQ | op::APPENDQ | op::PREPENDQ | op::INCRQ | op::DECRQ | op::DELETEQ)) && !v.props.contains(&"C19") {
                                        v.props.push("C19");
                                    }
                                    v.msg = format!("request #{} in arrival order: {}", i, v.msg);
                                    viols.push(v);
                                    break;
                                }
                            }
                        }
                        if viols.is_empty() && !by_pos.is_empty() && !truncated {
                            viols.push(Viol::new(&["C12", "C11"], "stray-response", format!("responses with opaques {:?} match no request", by_pos.keys().collect::<Vec<_>>())));
                        }
                    }
                    for p in kv::take_server_panics() {
                        viols.push(Viol::new(&["C10", "C12"], "panic-in-server", format!("a server task panicked: {}", p)));
                    }
                    // EOF rules
                    if viols.is_empty() && !truncated {
                        if quit_pos.is_some() {
                            if out.end == End::Timeout || out.end == End::Open {
                                viols.push(Viol::new(&["C12"], "no-eof-after-quit", "connection still open after quit/quitq".into()));
                            }
                            // nothing after the quit was executed
                            if let Ok(mut obs) = Cli::connect(srv.port) {
                                for k in &after_keys {
                                    *local.entry("after_quit_probes".into()).or_insert(0) += 1;
                                    if let Some(r) = ask(&mut obs, &wire::get(op::GET, k, 1)) {
                                        if r.status == st::OK {
                                            viols.push(Viol::new(&["C12"], "executed-after-quit", format!("a set placed after quit was executed (key {})", String::from_utf8_lossy(k))));
                                            break;
                                        }
                                    }
                                }
                            }
                        } else if out.end != End::Open {
                            viols.push(Viol::new(&["C12", "C18"], "closed-without-quit", format!("connection ended ({:?}) although no quit was sent and every frame was well-formed", out.end)));
                        }
                    }
                    let loud = frames.iter().any(|f| !op::is_quiet(f.opcode));
                    let quiet = frames.iter().any(|f| op::is_quiet(f.opcode));
                    if loud && quiet {
                        let mut h: Vec<u8> = frames.iter().map(|f| f.opcode).collect();
                        h.push(seg as u8);
                        fps.push(fnv(&h));
                    }
                    if c < 3 {
                        shared.lock().unwrap().sample(describe(json!({"responses": resps.iter().map(|r| r.brief()).collect::<Vec<_>>(), "end": format!("{:?}", out.end)})));
                    }
                    if !viols.is_empty() {
                        let mut e = shared.lock().unwrap();
                        for v in viols {
                            e.violation(v, describe(json!({"responses": resps.iter().map(|r| r.brief()).collect::<Vec<_>>(), "end": format!("{:?}", out.end), "server_exited": out.server_exited})));
                        }
                    }
                }
                let mut e = shared.lock().unwrap();
                e.evaluations += evals;
                e.merge_counters(&local);
                for f in fps {
                    e.nontrivial.insert(f);
                }
            });
        }
    });
    // quit / quitq followed by more requests on a connection that is reset while the quit is pending
    quit_reset_scenarios(ctx, &shared);
    // a connection that only sends silent quiet commands is an active connection
    quiet_keepalive_scenario(&shared);
    // a request body that crosses the receive timeout is never taken for requests
    slow_body_scenarios(&shared, ctx.thorough());
    // requests pipelined behind a flush of a small / big store
    flush_order_scenarios(ctx, &shared);
    // a connection the server gives up on is closed and nothing else
    idle_close_scenarios(&shared);
    shared.into_inner().unwrap().finish()
}

/// Replacing set by setq must change nothing but the responses: a stream of quiet stores paced below the
/// idle timeout (1 s) for longer than the timeout must be applied in full, exactly like its loud twin,
/// and the connection must stay open.
fn quiet_keepalive_scenario(shared: &Mutex<Evidence>) {
    let mut results: Vec<(bool, usize, bool)> = vec![];
    std::thread::scope(|s| {
        let hs: Vec<_> = [false, true]
            .into_iter()
            .map(|quiet| {
                s.spawn(move || -> Option<(bool, usize, bool)> {
                    let srv = Server::start(SrvCfg { idle_s: 1, ..Default::default() }).ok()?;
                    let mut c = Cli::connect(srv.port).ok()?;
                    let n = 9usize;
                    for i in 0..n {
                        let k = format!("ka-{}-{}", quiet, i).into_bytes();
                        let f = wire::store(if quiet { op::SETQ } else { op::SET }, &k, b"v", 0, 0, i as u32, 0);
                        use std::io::Write;
                        if c.s.write_all(&f.encode()).is_err() {
                            break;
                        }
                        std::thread::sleep(Duration::from_millis(300));
                        c.drain();
                    }
                    let open = c.end == End::Open && !conn_log().get(c.port).exited;
                    let mut obs = Cli::connect(srv.port).ok()?;
                    let mut stored = 0;
                    for i in 0..n {
                        let k = format!("ka-{}-{}", quiet, i).into_bytes();
                        if ask(&mut obs, &wire::get(op::GET, &k, 50 + i as u32)).map(|r| r.status == st::OK).unwrap_or(false) {
                            stored += 1;
                        }
                    }
                    Some((quiet, stored, open))
                })
            })
            .collect();
        for h in hs {
            if let Ok(Some(r)) = h.join() {
                results.push(r);
            }
        }
    });
    let mut e = shared.lock().unwrap();
    for (quiet, stored, open) in &results {
        e.evaluations += 1;
        e.count(&format!("keepalive:{}:stored", if *quiet { "setq" } else { "set" }), *stored as u64);
        e.nontrivial.insert(fnv(format!("keepalive:{}", quiet).as_bytes()));
        if *stored != 9 || !*open {
            let tags: &[&'static str] = if *quiet { &["C19", "C12"] } else { &["C12", "C17"] };
            e.violation(
                Viol::new(tags, "active-connection-dropped", format!("9 {} commands paced 300 ms apart (idle timeout 1 s): {} were applied, connection open afterwards: {}", if *quiet { "setq" } else { "set" }, stored, open)),
                json!({"engine":"pipe-keepalive","quiet":quiet,"stored":stored,"open":open}),
            );
        }
    }
}


/// A request whose body crosses the server's receive timeout: header and a first part of the body, then either a
/// trickle (activity in every timeout window) or silence longer than the timeout, then the rest of the body. The
/// rest of the body *is* a well-formed pipelined stream (a set of a canary key and a noop). Whatever the server's
/// timeout policy - drop the slow peer, or grant it more time - bytes inside the announced body must never be
/// taken for requests: the canary stays absent and no response carries the smuggled opaques. Covers an oversized
/// request (body being discarded) and a within-limit one (body being buffered).
pub fn slow_body_scenarios(shared: &Mutex<Evidence>, full: bool) {
    struct Out {
        name: String,
        canary: bool,
        smuggled_opaques: Vec<u32>,
        end: End,
        answers: Vec<String>,
        follower_answered: bool,
    }
    let mut grid: Vec<(u32, bool, bool, u8)> = vec![]; // item limit, oversized, trickle, opcode
    for (limit, over) in [(1024u32, true), (3000, true), (1 << 16, false)] {
        for trickle in [true, false] {
            grid.push((limit, over, trickle, if trickle { op::SET } else { op::ADD }));
        }
    }
    // pauses of 1.3 s / 2.5 s inside the body against a 5 s timeout: the server has to wait, discard the
    // body in full, answer 'too large' and serve the follower
    grid.push((1024, true, false, op::SET + 0x80));
    grid.push((3000, true, false, op::ADD + 0x80));
    if full {
        grid.push((1024, true, true, op::APPEND));
        grid.push((2048, true, false, op::SETQ));
        grid.push((1 << 16, false, true, op::REPLACEQ));
    }
    let mut outs: Vec<Out> = vec![];
    std::thread::scope(|s| {
        let hs: Vec<_> = grid
            .iter()
            .enumerate()
            .map(|(gi, &(limit, over, trickle, opc0))| {
                s.spawn(move || -> Option<Out> {
                    use std::io::Write;
                    let patient = opc0 >= 0x80;
                    let opc = opc0 & 0x7f;
                    let srv = Server::start(SrvCfg { idle_s: if patient { 5 } else { 1 }, item_limit: limit, workers: if gi % 2 == 0 { None } else { Some(2) }, ..Default::default() }).ok()?;
                    let canary = format!("smuggled-{}", gi).into_bytes();
                    let mut inner = wire::store(op::SET, &canary, b"from-inside-a-body", 0, 0, 0x5A5A_0001, 0).encode();
                    inner.extend(wire::simple(op::NOOP, 0x5A5A_0002).encode());
                    let key = format!("slow-{}", gi).into_bytes();
                    let value_len = if over { limit as usize + 700 } else { 1800 };
                    let head_part = 120usize;
                    let trickle_part = 60usize;
                    // value = filler | (two trickle chunks) | smuggled frames | filler
                    let mut value = vec![b'A'; head_part];
                    value.extend(vec![b'B'; 2 * trickle_part]);
                    let inner_at = value.len();
                    value.extend(&inner);
                    while value.len() < value_len {
                        value.push(b'C');
                    }
                    let f = if opc == op::APPEND { wire::concat(opc, &key, &value, 1, 0) } else { wire::store(opc, &key, &value, 0, 0, 1, 0) };
                    let bytes = f.encode();
                    let body_at = bytes.len() - value.len();
                    let mut c = Cli::connect(srv.port).ok()?;
                    c.s.write_all(&bytes[..body_at + head_part]).ok()?;
                    if trickle {
                        std::thread::sleep(Duration::from_millis(450));
                        let _ = c.s.write_all(&bytes[body_at + head_part..body_at + head_part + trickle_part]);
                        std::thread::sleep(Duration::from_millis(450));
                        let _ = c.s.write_all(&bytes[body_at + head_part + trickle_part..body_at + inner_at]);
                        std::thread::sleep(Duration::from_millis(600));
                    } else if patient {
                        std::thread::sleep(Duration::from_millis(if gi % 2 == 0 { 1300 } else { 2500 }));
                        let _ = c.s.write_all(&bytes[body_at + head_part..body_at + inner_at]);
                        std::thread::sleep(Duration::from_millis(50));
                    } else {
                        std::thread::sleep(Duration::from_millis(1500));
                        let _ = c.s.write_all(&bytes[body_at + head_part..body_at + inner_at]);
                        std::thread::sleep(Duration::from_millis(50));
                    }
                    // the receive timeout (1 s) has expired by now; these bytes start with a well-formed request
                    let _ = c.s.write_all(&bytes[body_at + inner_at..]);
                    let _ = c.s.write_all(&wire::simple(op::NOOP, 0x5A5A_0003).encode());
                    let end = c.read_to_end(Duration::from_millis(1500));
                    let resps = parse_prefix(&c.rx);
                    let mut obs = Cli::connect(srv.port).ok()?;
                    let hit = ask(&mut obs, &wire::get(op::GET, &canary, 9)).map(|r| r.status == st::OK)?;
                    Some(Out {
                        name: format!("{} limit={} body={} {}{}", op::name(opc), limit, value_len + key.len() + 8, if trickle { "trickle" } else { "silence" }, if patient { " (pause shorter than the 5 s timeout)" } else { "" }),
                        canary: hit,
                        smuggled_opaques: resps.iter().map(|r| r.opaque).filter(|o| *o == 0x5A5A_0001 || *o == 0x5A5A_0002).collect(),
                        end,
                        answers: resps.iter().map(|r| r.brief()).collect(),
                        follower_answered: resps.iter().any(|r| r.opaque == 0x5A5A_0003),
                    })
                })
            })
            .collect();
        for h in hs {
            if let Ok(Some(o)) = h.join() {
                outs.push(o);
            }
        }
    });
    let mut e = shared.lock().unwrap();
    if outs.len() < grid.len() {
        e.inconclusive.push(format!("slow-body scenarios: {} of {} could not be run (server start / connect)", grid.len() - outs.len(), grid.len()));
    }
    for o in &outs {
        e.evaluations += 1;
        e.nontrivial.insert(fnv(format!("slowbody:{}", o.name).as_bytes()));
        e.count(&format!("slow_body:{}", if o.end == End::Open { "kept-open" } else { "closed-by-server" }), 1);
        if o.follower_answered {
            e.count("slow_body:follower_answered_after_body", 1);
        }
        if o.name.contains("pause shorter") && !o.canary && o.smuggled_opaques.is_empty() && (!o.follower_answered || !o.answers.iter().any(|a| a.contains("st=0x3"))) {
            e.violation(
                Viol::new(&["C13", "C09", "C12"], "patient-discard-failed", format!("{}: the server must wait for the rest of the body, answer 'too large' once and serve the follower; answers {:?}, connection {:?}", o.name, o.answers, o.end)),
                json!({"engine":"slow-body","scenario":o.name,"answers":o.answers}),
            );
        }
        if o.canary || !o.smuggled_opaques.is_empty() {
            e.violation(
                Viol::new(
                    &["C09", "C12", "C13", "C18", "C11"],
                    "body-bytes-executed",
                    format!(
                        "{}: the body crossed the 1 s receive timeout and bytes inside the announced body were executed as requests (canary key stored: {}, responses to smuggled opaques: {:x?}); answers {:?}",
                        o.name, o.canary, o.smuggled_opaques, o.answers
                    ),
                ),
                json!({"engine":"slow-body","scenario":o.name,"canary_stored":o.canary,"answers":o.answers,"connection_end":format!("{:?}",o.end)}),
            );
        }
    }
}

/// In-order execution across a flush, for stores of every size: requests pipelined behind a flush (same segment)
/// see an empty store, and what they store is not touched by that flush - also when looked up a little later
/// through another connection.
pub fn flush_order_scenarios(ctx: &Ctx, shared: &Mutex<Evidence>) {
    let sizes: Vec<usize> = if ctx.thorough() { vec![0, 3, 300, 4097, 5000, 20_000, 100_000] } else { vec![3, 5000, 20_000] };
    struct Out {
        name: String,
        problems: Vec<String>,
        answers: Vec<String>,
    }
    let mut outs: Vec<Out> = vec![];
    std::thread::scope(|s| {
        let mut hs = vec![];
        for (si, &size) in sizes.iter().enumerate() {
            for quiet in [false, true] {
                hs.push(s.spawn(move || -> Option<Out> {
                    use std::io::Write;
                    let srv = Server::start(SrvCfg { workers: if (si + quiet as usize) % 2 == 0 { None } else { Some(2) }, ..Default::default() }).ok()?;
                    // prefill through the store's own front door
                    {
                        let mut conn = crate::l1::Conn::new(srv.stack.memc.clone(), 1 << 20);
                        let mut buf = vec![];
                        for i in 0..size {
                            wire::store(op::SETQ, format!("old-{}", i).as_bytes(), b"old", 0, 0, i as u32, 0).encode_into(&mut buf);
                            if buf.len() > 60_000 {
                                let _ = conn.feed(&buf);
                                buf.clear();
                            }
                        }
                        let _ = conn.feed(&buf);
                    }
                    let old_a = b"old-0".to_vec();
                    let old_b = format!("old-{}", size.saturating_sub(1)).into_bytes();
                    let frames = vec![
                        wire::get(op::GET, &old_a, 1),
                        wire::flush(if quiet { op::FLUSHQ } else { op::FLUSH }, None, 2),
                        wire::get(op::GET, &old_a, 3),
                        wire::get(op::GETK, &old_b, 4),
                        wire::store(op::SET, b"new-a", b"after-flush", 5, 0, 5, 0),
                        wire::store(op::ADD, &old_a, b"added-after-flush", 0, 0, 6, 0),
                        wire::counter(op::INCR, b"new-c", 1, 41, 0, 7, 0),
                        wire::get(op::GET, b"new-a", 8),
                        wire::simple(op::NOOP, SENTINEL),
                    ];
                    let mut stream = vec![];
                    for f in &frames {
                        f.encode_into(&mut stream);
                    }
                    let mut c = Cli::connect(srv.port).ok()?;
                    c.s.write_all(&stream).ok()?;
                    let want = if quiet { 8 } else { 9 };
                    c.read_frames(want, Duration::from_secs(10));
                    let rs = parse_prefix(&c.rx);
                    let by = |o: u32| rs.iter().find(|r| r.opaque == o);
                    let problems_cell: std::cell::RefCell<Vec<String>> = std::cell::RefCell::new(vec![]);
                    let expect = |o: u32, what: &str, ok: &dyn Fn(&Resp) -> bool| match by(o) {
                        Some(r) if ok(r) => {}
                        other => problems_cell.borrow_mut().push(format!("request #{} ({}) answered {:?}", o, what, other.map(|r| r.brief()))),
                    };
                    if size > 0 {
                        expect(1, "get of an old key before the flush: hit", &|r| r.status == st::OK);
                    }
                    if !quiet {
                        expect(2, "flush: OK", &|r| r.status == st::OK);
                    } else if by(2).is_some() {
                        problems_cell.borrow_mut().push("flushq was answered".into());
                    }
                    expect(3, "get of an old key pipelined behind the flush: miss", &|r| r.status == st::NOT_FOUND);
                    expect(4, "getk of another old key behind the flush: miss", &|r| r.status == st::NOT_FOUND);
                    expect(5, "set behind the flush: OK", &|r| r.status == st::OK);
                    expect(6, "add of an old key behind the flush: OK (the key is gone)", &|r| r.status == st::OK);
                    expect(7, "incr creating a counter behind the flush: 41", &|r| r.status == st::OK && r.value == 41u64.to_be_bytes());
                    expect(8, "get of the key set behind the flush: hit", &|r| r.status == st::OK && r.value == b"after-flush");
                    let mut problems = problems_cell.into_inner();
                    let ops: Vec<u32> = rs.iter().map(|r| r.opaque).filter(|o| *o != SENTINEL).collect();
                    if ops.windows(2).any(|w| w[0] >= w[1]) {
                        problems.push(format!("responses out of request order: opaques {:?}", ops));
                    }
                    // a little later, through another connection: the acknowledged stores are still there
                    for wait_ms in [30u64, 300] {
                        std::thread::sleep(Duration::from_millis(wait_ms));
                        let mut obs = Cli::connect(srv.port).ok()?;
                        for (k, what, want_hit) in [(&b"new-a"[..], "key set behind the flush", true), (&old_a[..], "key added behind the flush", true), (b"new-c", "counter created behind the flush", true), (&old_b[..], "old key", false)] {
                            if size == 0 && !want_hit {
                                continue;
                            }
                            match ask(&mut obs, &wire::get(op::GET, k, 70)) {
                                Some(r) if (r.status == st::OK) == want_hit => {}
                                other => problems.push(format!("{} ms after the pipeline: get of the {} answered {:?}", wait_ms, what, other.map(|r| r.brief()))),
                            }
                        }
                    }
                    Some(Out { name: format!("{} with {} items stored", if quiet { "flushq" } else { "flush" }, size), problems, answers: rs.iter().map(|r| r.brief()).collect() })
                }));
            }
        }
        for h in hs {
            if let Ok(Some(o)) = h.join() {
                outs.push(o);
            }
        }
    });
    let mut e = shared.lock().unwrap();
    if outs.len() < sizes.len() * 2 {
        e.inconclusive.push(format!("flush-order scenarios: {} of {} could not be run", sizes.len() * 2 - outs.len(), sizes.len() * 2));
    }
    for o in &outs {
        e.evaluations += 1;
        e.count("flush_order:scenarios", 1);
        e.nontrivial.insert(fnv(format!("flushorder:{}", o.name).as_bytes()));
        if !o.problems.is_empty() {
            e.violation(
                Viol::new(if o.name.starts_with("flushq") { &["C12", "C08", "C01", "C19"] } else { &["C12", "C08", "C01"] }, "flush-out-of-order", format!("{}: requests pipelined behind the flush were not executed after it: {}", o.name, o.problems.join("; "))),
                json!({"engine":"pipe-flush-order","scenario":o.name,"problems":o.problems,"answers":o.answers}),
            );
        }
    }
}

/// A connection the server gives up on (idle, or stalled inside a request, for longer than the receive timeout)
/// is closed - and nothing else: every frame a client ever receives answers one of its requests, so whatever is
/// read before the end of the stream must be exactly the responses owed.
pub fn idle_close_scenarios(shared: &Mutex<Evidence>) {
    let mut outs: Vec<(String, Vec<String>, Vec<String>, End)> = vec![];
    std::thread::scope(|s| {
        let hs: Vec<_> = (0..4usize)
            .map(|kind| {
                s.spawn(move || -> Option<(String, Vec<String>, Vec<String>, End)> {
                    use std::io::Write;
                    let srv = Server::start(SrvCfg { idle_s: 1, workers: if kind % 2 == 0 { None } else { Some(2) }, ..Default::default() }).ok()?;
                    let mut c = Cli::connect(srv.port).ok()?;
                    let mut want: Vec<String> = vec![];
                    let name = match kind {
                        0 => {
                            "idle from the start".to_string()
                        }
                        1 => {
                            let f = wire::simple(op::NOOP, 0x1000_0001);
                            c.s.write_all(&f.encode()).ok()?;
                            want.push(format!("{}#{:x}", op::name(op::NOOP), 0x1000_0001u32));
                            "idle after an answered noop".to_string()
                        }
                        2 => {
                            let f = wire::store(op::SET, b"idle-k", &vec![b'v'; 300], 0, 0, 0x1000_0002, 0).encode();
                            c.s.write_all(&f[..24 + 100]).ok()?;
                            "stalled inside the body of a set".to_string()
                        }
                        _ => {
                            let mut b = wire::store(op::SETQ, b"idle-q", b"v", 0, 0, 0x1000_0003, 0).encode();
                            b.extend(wire::get(op::GETQ, b"idle-missing", 0x1000_0004).encode());
                            c.s.write_all(&b).ok()?;
                            "idle after quiet commands that owe nothing".to_string()
                        }
                    };
                    let end = c.read_to_end(Duration::from_secs(6));
                    let got: Vec<String> = parse_prefix(&c.rx).iter().map(|r| format!("{}#{:x}", op::name(r.opcode), r.opaque)).collect();
                    let complete: usize = parse_prefix(&c.rx).iter().map(|r| 24 + r.extras.len() + r.key.len() + r.value.len()).sum();
                    let mut got = got;
                    if complete != c.rx.len() {
                        got.push(format!("+{} stray bytes", c.rx.len() - complete));
                    }
                    Some((name, want, got, end))
                })
            })
            .collect();
        for h in hs {
            if let Ok(Some(o)) = h.join() {
                outs.push(o);
            }
        }
    });
    let mut e = shared.lock().unwrap();
    for (name, want, got, end) in outs {
        e.evaluations += 1;
        e.count("idle_close:scenarios", 1);
        e.nontrivial.insert(fnv(format!("idle-close:{}", name).as_bytes()));
        if end == End::Open {
            e.count("idle_close:still_open_after_6s", 1);
        }
        if got != want {
            e.violation(
                Viol::new(&["C11", "C12"], "unsolicited-frame", format!("connection {} (receive timeout 1 s): received {:?} before the end of the stream ({:?}), owed {:?}", name, got, end, want)),
                json!({"engine":"idle-close","scenario":name,"received":got,"owed":want}),
            );
        }
    }
}

/// The stream ends (FIN) in the middle of a header. There is nothing to wait for: the server must end the
/// connection at once - not after its receive timeout, and without spinning until then.
pub fn eof_mid_header_scenarios(shared: &Mutex<Evidence>) {
    let mut outs: Vec<(usize, bool, End, u64, u64)> = vec![];
    std::thread::scope(|s| {
        let hs: Vec<_> = [1usize, 2, 8, 12, 23, 24 + 1, 24 + 23]
            .into_iter()
            .enumerate()
            .map(|(i, n)| {
                s.spawn(move || -> Option<(usize, bool, End, u64, u64)> {
                    use std::io::Write;
                    let multi = i % 2 == 1;
                    let srv = Server::start(SrvCfg { idle_s: 30, workers: if multi { Some(2) } else { None }, ..Default::default() }).ok()?;
                    let mut c = Cli::connect(srv.port).ok()?;
                    let mut bytes = wire::simple(op::NOOP, 1).encode();
                    bytes.extend(wire::store(op::SET, b"never", b"v", 0, 0, 2, 0).encode());
                    c.s.write_all(&bytes[..n]).ok()?;
                    c.half_close();
                    let cpu0: u64 = crate::l3b::server_thread_cpu_total();
                    let t0 = Instant::now();
                    let end = c.read_to_end(Duration::from_secs(6));
                    let ms = t0.elapsed().as_millis() as u64;
                    let cpu = crate::l3b::server_thread_cpu_total().saturating_sub(cpu0);
                    Some((n, multi, end, ms, cpu))
                })
            })
            .collect();
        for h in hs {
            if let Ok(Some(o)) = h.join() {
                outs.push(o);
            }
        }
    });
    let mut e = shared.lock().unwrap();
    for (n, multi, end, ms, cpu) in outs {
        e.evaluations += 1;
        e.count("eof_mid_header:scenarios", 1);
        e.nontrivial.insert(fnv(format!("eof-mid-header:{}", n).as_bytes()));
        if end != End::Eof && end != End::Reset {
            e.violation(
                Viol::new(&["C10", "C18", "C16"], "eof-mid-header-not-closed", format!("the client sent {} bytes (the stream ends inside a header) and closed its sending side; {} ms later the {} server (receive timeout 30 s) has not ended the connection ({:?}); its threads consumed {} clock ticks meanwhile", n, ms, if multi { "2-worker" } else { "current-thread" }, end, cpu)),
                json!({"engine":"eof-mid-header","bytes":n,"multi_thread":multi,"cpu_ticks":cpu}),
            );
        }
    }
}

/// "Nothing received after quit/quitq is executed" must also hold when the peer has already reset the
/// connection by the time the server reaches the quit (closing the socket then fails). The window is
/// produced with an injected delay: the connection task sleeps when it is handed the quit frame, the
/// client resets meanwhile.
fn quit_reset_scenarios(ctx: &Ctx, shared: &Mutex<Evidence>) {
    let n = ctx.n(24, 200);
    let mut local: BTreeMap<String, u64> = BTreeMap::new();
    for i in 0..n {
        let quiet = i % 2 == 0;
        let rst = i % 4 != 3;
        let srv = match Server::start(SrvCfg { workers: if i % 3 == 0 { Some(2) } else { None }, ..Default::default() }) {
            Ok(s) => s,
            Err(_) => continue,
        };
        let mut c = match Cli::connect(srv.port) {
            Ok(c) => c,
            Err(_) => continue,
        };
        let qop = if quiet { op::QUITQ } else { op::QUIT };
        crate::sock::inject_delay(c.port, qop, 150);
        let before = format!("qr-before-{}", i).into_bytes();
        let after: Vec<Vec<u8>> = (0..3).map(|k| format!("qr-after-{}-{}", i, k).into_bytes()).collect();
        let mut stream = vec![];
        wire::store(op::SET, &before, b"1", 0, 0, 1, 0).encode_into(&mut stream);
        wire::simple(qop, 2).encode_into(&mut stream);
        for (k, a) in after.iter().enumerate() {
            wire::store(if k == 1 { op::SETQ } else { op::SET }, a, b"must-not-run", 0, 0, 10 + k as u32, 0).encode_into(&mut stream);
        }
        use std::io::Write;
        let _ = c.s.write_all(&stream);
        let key = c.port;
        // the server is now asleep holding the quit frame
        conn_log().wait(key, Duration::from_secs(2), |o| o.frames.iter().any(|f| f.0 == qop));
        if rst {
            c.reset();
        } else {
            drop(c);
        }
        conn_log().wait(key, Duration::from_secs(3), |o| o.exited);
        crate::sock::clear_delays(key);
        *local.entry(format!("quit_reset:{}:{}", if quiet { "quitq" } else { "quit" }, if rst { "rst" } else { "fin" })).or_insert(0) += 1;
        let mut e = shared.lock().unwrap();
        e.evaluations += 1;
        e.nontrivial.insert(fnv(format!("quit-reset:{}:{}:{}", quiet, rst, i % 3).as_bytes()));
        drop(e);
        if let Ok(mut obs) = Cli::connect(srv.port) {
            let b = ask(&mut obs, &wire::get(op::GET, &before, 1));
            let mut executed = vec![];
            for a in &after {
                if ask(&mut obs, &wire::get(op::GET, a, 2)).map(|r| r.status == st::OK).unwrap_or(false) {
                    executed.push(String::from_utf8_lossy(a).to_string());
                }
            }
            let mut e = shared.lock().unwrap();
            if b.map(|r| r.status != st::OK).unwrap_or(true) {
                e.violation(Viol::new(&["C12", "C18"], "request-before-quit-lost", format!("the set in front of the {} was not executed", op::name(qop))), json!({"engine":"pipe-quit-reset","scenario":i}));
            }
            if !executed.is_empty() {
                e.violation(
                    Viol::new(&["C12", "C18"], "executed-after-quit", format!("requests placed after a {} were executed after the client {} the connection while the quit was pending: {:?}", op::name(qop), if rst { "reset" } else { "closed" }, executed)),
                    json!({"engine":"pipe-quit-reset","scenario":i,"quiet":quiet,"reset":rst}),
                );
            }
        }
    }
    shared.lock().unwrap().merge_counters(&local);
}

// ---------------------------------------------------------------------------
// C13 oversized items

pub const RULE_C13: &str = "a case is one pipeline [set a] [frame with body around the item limit] [set b, get a, noop] on a server with item limit L, where the amount of the big body that arrives together with its header is controlled (0, 1, <half, half, >half, all-1, all, all+followers) and the split actually achieved is read from the conn.frame hook; bodies > L must be answered 0x03 once with the opaque echoed, change nothing, and leave the followers served; bodies <= L must not be rejected for size; non-trivial when the frame is oversized and has followers; distinct by (L, opcode, body class, position, achieved (buffered, body) pair)";

const BIG_OPS: [u8; 14] = [op::SET, op::GET, op::INCR, op::NOOP, op::APPEND, op::QUIT, op::ADD, op::QUITQ, op::DELETE, op::SETQ, op::GETKQ, op::TOUCH, op::FLUSH, op::VERSION];

/// "A request whose body is within the limit is never rejected for size" - also when the store's memory limit
/// (random eviction) is smaller than the item size limit: the item is stored (C14 lets the store hold the limit
/// plus the record just written).
fn within_limit_under_small_memory(shared: &Mutex<Evidence>) {
    for (mem, size) in [(65_536u64, 100 << 10), (65_536, 300 << 10), (1000, 5000), (65_536, 65_513)] {
        let srv = match Server::start(SrvCfg { item_limit: 1 << 20, store: StoreKind::Random(mem), ..Default::default() }) {
            Ok(s) => s,
            Err(_) => continue,
        };
        let mut c = match Cli::connect(srv.port) {
            Ok(c) => c,
            Err(_) => continue,
        };
        let value: Vec<u8> = (0..size).map(|i| (i % 251) as u8).collect();
        let r = ask(&mut c, &wire::store(op::SET, b"wide", &value, 7, 0, 1, 0));
        let g = ask(&mut c, &wire::get(op::GET, b"wide", 2));
        let mut e = shared.lock().unwrap();
        e.evaluations += 1;
        e.count("within_limit_under_small_memory:cases", 1);
        e.nontrivial.insert(fnv(format!("small-mem:{}:{}", mem, size).as_bytes()));
        let ok = r.as_ref().map(|r| r.status == st::OK).unwrap_or(false) && g.as_ref().map(|g| g.status == st::OK && g.value == value).unwrap_or(false);
        if !ok {
            e.violation(
                Viol::new(&["C13", "C01"], "within-limit-refused", format!("item limit 1 MiB, random eviction with a memory limit of {} bytes: set of a {}-byte value answered {:?}, get answered {:?}", mem, size, r.map(|r| r.brief()), g.map(|g| format!("st={:#x} len={}", g.status, g.value.len())))),
                json!({"engine":"toolarge-small-memory","memory_limit":mem,"value":size}),
            );
        }
    }
}

pub fn run_c13(ctx: &Ctx) -> i32 {
    install_quiet_panic_hook();
    let mut ev0 = Evidence::new(ctx, "exploration", RULE_C13);
    ev0.assumptions = vec!["in-process MemcacheTcpServer on loopback; achieved read splits observed through the conn.* hooks".into()];
    let shared = Mutex::new(ev0);
    if ctx.prop == "C13" && ctx.only_case.is_none() {
        within_limit_under_small_memory(&shared);
    }
    let limits: Vec<u32> = if ctx.thorough() { vec![1024, 4096, 65536, 1 << 20, 4 << 20] } else { vec![1024, 65536] };
    // "for every opcode": an oversized quit / quitq is refused like any other request and does not end the connection
    // every opcode the protocol knows (implemented, quiet, unimplemented): "both hold for every opcode"
    let ops: Vec<u8> = (0..op::MAX).filter(|o| op::is_known(*o)).collect();
    // case list
    let mut cases: Vec<(u32, u8, usize, usize, usize)> = vec![];
    for (li, l) in limits.iter().enumerate() {
        for o in &ops {
            for bc in 0..5 {
                for pos in 0..3 {
                    for split in 0..8 {
                        // quick: thin out positions for the larger limit
                        if !ctx.thorough() && li == 1 && (pos != 1 || bc == 4 || !BIG_OPS[..8].contains(o)) {
                            continue;
                        }
                        if *l >= (1 << 20) && bc == 4 && split % 2 == 1 {
                            continue;
                        }
                        // a quit whose body is within the limit is a quit: it ends the connection by design
                        if (*o == op::QUIT || *o == op::QUITQ) && bc < 2 {
                            continue;
                        }
                        // likewise a flush within the limit is a flush: it empties the store the followers read
                        if (*o == op::FLUSH || *o == op::FLUSHQ) && bc < 2 {
                            continue;
                        }
                        cases.push((*l, *o, bc, pos, split));
                    }
                }
            }
        }
    }
    let total = cases.len() as u64;
    let next = AtomicU64::new(0);
    std::thread::scope(|s| {
        for _w in 0..ctx.workers {
            let (next, shared, cases) = (&next, &shared, &cases);
            s.spawn(move || {
                let mut servers: HashMap<u32, Server> = HashMap::new();
                let mut local: BTreeMap<String, u64> = BTreeMap::new();
                let mut fps = vec![];
                let mut evals = 0u64;
                loop {
                    let c = next.fetch_add(1, Ordering::Relaxed);
                    if c >= total {
                        break;
                    }
                    if let Some(o) = ctx.only_case {
                        if c != o {
                            continue;
                        }
                    }
                    let (l, opc, bc, pos, split) = cases[c as usize];
                    if !servers.contains_key(&l) {
                        match Server::start(SrvCfg { item_limit: l, ..Default::default() }) {
                            Ok(s) => {
                                servers.insert(l, s);
                            }
                            Err(_) => continue,
                        }
                    }
                    let srv = servers.get(&l).unwrap();
                    let body_len: usize = match bc {
                        0 => l as usize - 1,
                        1 => l as usize,
                        2 => l as usize + 1,
                        3 => 2 * l as usize,
                        _ => (10 * l as usize).min(40 << 20),
                    };
                    let oversized = body_len > l as usize;
                    let ka = format!("a-{}", c).into_bytes();
                    let kb = format!("b-{}", c).into_bytes();
                    let kbig = format!("big-{}", c).into_bytes();
                    // the big frame: header fields plausible for its opcode, body filled up to body_len
                    let (extras, key): (Vec<u8>, Vec<u8>) = match opc {
                        op::SET | op::ADD | op::REPLACE | op::SETQ | op::ADDQ | op::REPLACEQ => (vec![0; 8], kbig.clone()),
                        op::INCR | op::DECR | op::INCRQ | op::DECRQ => (vec![0; 20], kbig.clone()),
                        op::NOOP | op::VERSION | op::STAT | op::FLUSH | op::FLUSHQ => (vec![], vec![]),
                        op::TOUCH | op::GAT | op::GATQ | op::GATK | op::GATKQ => (vec![0, 0, 0, 5], kbig.clone()),
                        _ => (vec![], kbig.clone()),
                    };
                    let fill = body_len.saturating_sub(extras.len() + key.len());
                    let value: Vec<u8> = (0..fill).map(|i| b'0' + (i % 10) as u8).collect();
                    let mut big = wire::req(opc, &extras, &key, &value, 0xb16, 0);
                    if big.body.len() != body_len {
                        big.body.resize(body_len, b'x');
                        big.body_len = body_len as u32;
                    }
                    let pre = vec![wire::store(op::SET, &ka, b"1", 9, 0, 1, 0)];
                    let post = vec![wire::store(op::SET, &kb, b"2", 0, 0, 2, 0), wire::get(op::GET, &ka, 3), wire::simple(op::NOOP, 4)];
                    // position: first (no pre), middle, last (no post)
                    let (pre, post) = match pos {
                        0 => (vec![], post),
                        1 => (pre, post),
                        _ => (pre, vec![]),
                    };
                    let bigb = big.encode();
                    let s_bytes = match split {
                        0 => 0,
                        1 => 1,
                        2 => body_len / 3,
                        3 => body_len / 2,
                        4 => body_len / 2 + 1 + body_len / 8,
                        5 => body_len - 1,
                        _ => body_len,
                    }
                    .min(body_len);
                    let mut c1 = vec![];
                    for f in &pre {
                        f.encode_into(&mut c1);
                    }
                    let pre_len = c1.len();
                    let mut postb = vec![];
                    for f in &post {
                        f.encode_into(&mut postb);
                    }
                    evals += 1;
                    let mut cli = match Cli::connect(srv.port) {
                        Ok(c) => c,
                        Err(_) => continue,
                    };
                    // to approach large splits with large limits: grow the connection buffer first with a within-limit request
                    if s_bytes > 3000 {
                        let grow = (l as usize).saturating_sub(64).min(60_000);
                        let g = wire::store(op::SET, format!("grow-{}", c).as_bytes(), &vec![b'g'; grow.saturating_sub(40)], 0, 0, 77, 0);
                        cli.send_chunk(&g.encode());
                        cli.read_frames(1, Duration::from_secs(2));
                        cli.rx.clear();
                    }
                    if !c1.is_empty() {
                        cli.send_chunk(&c1);
                        cli.wait_quiescent(Duration::from_secs(2));
                    }
                    let mut chunk = bigb[..24 + s_bytes].to_vec();
                    if split == 7 {
                        chunk.extend_from_slice(&postb);
                    }
                    cli.send_chunk(&chunk);
                    if 24 + s_bytes < bigb.len() {
                        // the rest of the body in pieces, then the followers
                        let rest = &bigb[24 + s_bytes..];
                        let mid = rest.len() / 2;
                        if mid > 0 {
                            cli.send_chunk(&rest[..mid]);
                        }
                        cli.send_chunk(&rest[mid..]);
                    }
                    if split != 7 && !postb.is_empty() {
                        cli.send_chunk(&postb);
                    }
                    let want = pre.len() + 1 + post.len();
                    cli.wait_quiescent(Duration::from_secs(5));
                    cli.read_frames(want, Duration::from_secs(3));
                    let obs = conn_log().get(cli.port);
                    let achieved = obs.frames.iter().find(|(o, _)| *o == opc).map(|x| x.1).unwrap_or(u64::MAX);
                    let posname = ["first", "middle", "last"][pos];
                    let describe = |msg: &str| json!({"engine":"toolarge","case":c,"limit":l,"opcode":op::name(opc),"body_len":body_len,"position":posname,"wanted_split":s_bytes,"achieved_buffered_when_header_parsed":achieved,"reads":obs.reads.iter().take(20).collect::<Vec<_>>(),"skips":obs.skips.iter().take(20).collect::<Vec<_>>(),"note":msg,"replay_cmd":format!("/verif/check C13 replay --case {}", c)});
                    let mut viols: Vec<Viol> = vec![];
                    let resps = parse_prefix(&cli.rx);
                    let trailing = cli.rx.len() - resps.iter().map(|r| 24 + r.extras.len() + r.key.len() + r.value.len()).sum::<usize>();
                    *local.entry(format!("split_achieved:{}", if !oversized { "n/a(within limit)".to_string() } else if achieved == u64::MAX { "unobserved".into() } else if achieved == 0 { "0".into() } else if achieved as usize >= body_len { if achieved as usize > body_len { "all+more".into() } else { "all".into() } } else if (achieved as usize) * 2 > body_len { ">half".into() } else if (achieved as usize) * 2 == body_len { "=half".into() } else { "<half".into() })).or_insert(0) += 1;
                    let by: HashMap<u32, &Resp> = resps.iter().map(|r| (r.opaque, r)).collect();
                    if cli.end != End::Open || obs.exited {
                        viols.push(Viol::new(&["C13", "C09", "C10"], "connection-closed", format!("connection ended ({:?}) while handling a {} with body {} under limit {}", cli.end, op::name(opc), body_len, l)));
                    } else if trailing != 0 {
                        viols.push(Viol::new(&["C11", "C13"], "resp-grammar", format!("{} stray response bytes", trailing)));
                    } else {
                        let bigr: Vec<&Resp> = resps.iter().filter(|r| r.opaque == 0xb16).collect();
                        if oversized {
                            if bigr.len() != 1 || bigr[0].status != st::TOO_LARGE || bigr[0].opcode != opc {
                                viols.push(Viol::new(&["C13", "C10"], "not-refused", format!("oversized {} (body {} > limit {}) answered {:?}", op::name(opc), body_len, l, bigr.iter().map(|r| r.brief()).collect::<Vec<_>>())));
                            }
                        } else if bigr.iter().any(|r| r.status == st::TOO_LARGE) {
                            viols.push(Viol::new(&["C13"], "refused-within-limit", format!("{} with body {} <= limit {} rejected as too large", op::name(opc), body_len, l)));
                        } else if bigr.is_empty() && !op::is_quiet(opc) {
                            viols.push(Viol::new(&["C13", "C12"], "no-response", format!("{} with body {} <= limit {} got no response", op::name(opc), body_len, l)));
                        }
                        // followers and predecessor
                        for f in pre.iter().chain(post.iter()) {
                            match by.get(&f.opaque) {
                                None => {
                                    viols.push(Viol::new(&["C13", "C09", "C10"], "follower-unanswered", format!("pipelined {} (opaque {}) was not answered", op::name(f.opcode), f.opaque)));
                                    break;
                                }
                                Some(r) => {
                                    let ok = match f.opaque {
                                        3 => pos == 0 && r.status == st::NOT_FOUND || pos != 0 && r.status == st::OK && r.value == b"1" && r.flags() == Some(9),
                                        _ => r.status == st::OK && r.opcode == f.opcode,
                                    };
                                    if !ok {
                                        viols.push(Viol::new(&["C13", "C09"], "follower-wrong", format!("pipelined {} (opaque {}) answered {}", op::name(f.opcode), f.opaque, r.brief())));
                                        break;
                                    }
                                }
                            }
                        }
                        if viols.is_empty() && resps.len() != pre.len() + post.len() + bigr.len() {
                            viols.push(Viol::new(&["C13", "C09"], "stray-response", format!("{} responses for {} requests: {:?}", resps.len(), want, resps.iter().map(|r| r.brief()).collect::<Vec<_>>())));
                        }
                        // nothing stored by an oversized request
                        if viols.is_empty() && oversized && !key.is_empty() {
                            if let Some(r) = ask(&mut cli, &wire::get(op::GET, &kbig, 99)) {
                                *local.entry("store_probes".into()).or_insert(0) += 1;
                                if r.status == st::OK {
                                    viols.push(Viol::new(&["C13"], "oversized-stored", format!("oversized {} left an item under its key", op::name(opc))));
                                }
                            }
                        }
                    }
                    for p in kv::take_server_panics() {
                        viols.push(Viol::new(&["C10", "C13"], "panic-in-server", format!("a server task panicked: {}", p)));
                    }
                    if oversized && !post.is_empty() {
                        fps.push(fnv(format!("{}:{}:{}:{}:{}", l, opc, bc, pos, achieved).as_bytes()));
                    }
                    *local.entry(format!("body_class:{}", ["limit-1", "limit", "limit+1", "2x", "10x"][bc])).or_insert(0) += 1;
                    if c < 2 {
                        shared.lock().unwrap().sample(describe("sample"));
                    }
                    if !viols.is_empty() {
                        let mut e = shared.lock().unwrap();
                        for v in viols {
                            e.violation(v, describe("violation"));
                        }
                    }
                }
                let mut e = shared.lock().unwrap();
                e.evaluations += evals;
                e.merge_counters(&local);
                for f in fps {
                    e.nontrivial.insert(f);
                }
            });
        }
    });
    let mut ev = shared.into_inner().unwrap();
    ev.exhaustive = true;
    ev.finish()
}

// ---------------------------------------------------------------------------
// socket legs of C09 / C10 / C11: the frame engine's streams through the real connection layer

pub const RULE_SOCK: &str = "a case is one (byte stream, segmentation) sent over loopback TCP to an in-process server (chunk boundaries confirmed through the conn.* hooks); the outcome (response bytes, connection fate, final store content seen through a second connection, sequence of frames the connection layer returned) is compared with the unsplit run of the same stream, every response goes through the strict parser; non-trivial when the segmentation splits a frame; distinct by (stream hash, segmentation)";

#[derive(PartialEq, Debug, Clone)]
struct SockOutcome {
    rx: Vec<u8>,
    closed: bool,
    frames: Vec<u8>,
    store: Vec<Option<(Vec<u8>, u32)>>,
}

pub fn run_sock_frames(ctx: &Ctx) -> i32 {
    install_quiet_panic_hook();
    let mut ev0 = Evidence::new(ctx, "exploration", RULE_SOCK);
    ev0.assumptions = vec!["in-process MemcacheTcpServer on loopback, one fresh server per (stream, segmentation) run".into()];
    let shared = Mutex::new(ev0);
    let nstreams = ctx.n(400, 2000);
    let next = AtomicU64::new(0);
    let deadline = if ctx.budget_s > 0 { Some(Instant::now() + Duration::from_secs(ctx.budget_s)) } else { None };
    std::thread::scope(|s| {
        for _ in 0..ctx.workers {
            let (next, shared) = (&next, &shared);
            s.spawn(move || {
                let mut local: BTreeMap<String, u64> = BTreeMap::new();
                let mut fps = vec![];
                let mut evals = 0u64;
                loop {
                    let c = next.fetch_add(1, Ordering::Relaxed);
                    let over = match deadline {
                        Some(d) => Instant::now() > d && c >= nstreams,
                        None => c >= nstreams,
                    };
                    if over {
                        break;
                    }
                    if let Some(o) = ctx.only_case {
                        if c != o {
                            if c > o {
                                break;
                            }
                            continue;
                        }
                    }
                    let mut rng = SmallRng::seed_from_u64(ctx.case_seed("sockframe", c));
                    let limit: u32 = [256, 512, 1 << 20, 4200, 6000, 16384][rng.gen_range(0..6)];
                    let nf = rng.gen_range(2..=10);
                    let closing = rng.gen_bool(0.3);
                    let mut stream = vec![];
                    // a storing request whose body is as large as the item limit allows (or a few bytes less), with
                    // pipelined followers behind it: the largest amount of bytes a connection legitimately buffers
                    let near_at = if limit < (1 << 20) && rng.gen_bool(0.6) { Some(rng.gen_range(0..nf.min(3))) } else { None };
                    // under the default limit: now and then a value of 70..200 KiB in the middle of the stream
                    // (what a connection buffers for it is far above its usual read buffer)
                    let large_at = if limit == (1 << 20) && rng.gen_bool(0.25) { Some(rng.gen_range(0..nf)) } else { None };
                    for i in 0..nf {
                        if large_at == Some(i) {
                            let value = vec![b'L'; rng.gen_range(70_000..200_000)];
                            wire::store(op::SET, b"key3", &value, 4, 0, 0x3000 + i as u32, 0).encode_into(&mut stream);
                            // ghost-header followers: should a connection ever lose the first 12 bytes of the header that
                            // follows a large request (they arrive with its tail, see the cut sets below), the rest of this
                            // NOOP (its opaque and cas) plus the first 12 bytes of the GET read as a complete NOOP request
                            // with opaque 0x80000004, which no request of the stream carries: the loss then surfaces as an
                            // uncorrelated response (C11), not only as a closed connection
                            wire::simple(op::NOOP, 0x800a_0000).encode_into(&mut stream);
                            wire::get(op::GET, b"key3", 0x3100 + i as u32).encode_into(&mut stream);
                        }
                        if near_at == Some(i) {
                            let key: &[u8] = [&b"a"[..], b"bb", b"key3"][rng.gen_range(0..3)];
                            let body = limit as usize - [0usize, 0, 1, 7, 24, 40][rng.gen_range(0..6)];
                            let value = vec![b'N'; body - 8 - key.len()];
                            wire::store([op::SET, op::ADD, op::SETQ][rng.gen_range(0..3)], key, &value, 3, 0, 0x2000 + i as u32, 0).encode_into(&mut stream);
                        }
                        frame::gen_frame(&mut rng, 0x1000 + i as u32, limit, closing && i + 2 >= nf).encode_into(&mut stream);
                    }
                    wire::simple(op::NOOP, SENTINEL).encode_into(&mut stream);
                    let table = frame::frame_table(&stream, limit);
                    let n = stream.len();
                    let mut cutsets: Vec<Vec<usize>> = vec![vec![]];
                    // the tail of a large request together with the first k bytes of the next header (k = 12 first: the
                    // ghost-header followers above)
                    for f in table.iter().filter(|f| !f.too_large && f.body_len > 65_536) {
                        for k in [12usize, 1, 8, 16, 23] {
                            if f.end + k < n {
                                cutsets.push(vec![f.end + k]);
                            }
                        }
                    }
                    cutsets.push((1..n).step_by(1).take(400).collect()); // byte at a time (first 400 bytes)
                    let mut hb = vec![];
                    let mut mh = vec![];
                    for f in &table {
                        hb.push(f.start + 24);
                        mh.push(f.start + 7);
                    }
                    hb.retain(|x| *x > 0 && *x < n);
                    mh.retain(|x| *x > 0 && *x < n);
                    cutsets.push(hb);
                    cutsets.push(mh);
                    // two frames per read
                    cutsets.push(table.iter().skip(1).step_by(2).map(|f| f.end).filter(|x| *x < n).collect());
                    for _ in 0..(if ctx.thorough() { 15 } else { 3 }) {
                        let k = rng.gen_range(1..6);
                        let mut v: Vec<usize> = (0..k).map(|_| rng.gen_range(1..n)).collect();
                        v.sort();
                        v.dedup();
                        cutsets.push(v);
                    }
                    // large bodies within the limit: header plus a part of the body in the first read
                    for f in table.iter().filter(|f| !f.too_large && f.body_len > 2000) {
                        for part in [1usize, 100, 3000] {
                            let x = f.start + 24 + part;
                            if x < f.end && x < n {
                                cutsets.push(vec![x]);
                            }
                        }
                    }
                    // oversized bodies: cuts inside the body at characteristic fractions
                    for f in table.iter().filter(|f| f.too_large) {
                        let b = f.body_len as usize;
                        for frac in [0usize, 1, b / 3, b / 2, b / 2 + b / 8 + 1, b - 1, b] {
                            let x = f.start + 24 + frac;
                            if x > 0 && x < n {
                                cutsets.push(vec![x]);
                            }
                        }
                    }
                    let describe = |cs: &[usize]| json!({"engine":"sockframe","case":c,"limit":limit,"stream_hex":wire::hex(&stream[..stream.len().min(4000)]),"cuts":cs.iter().take(40).collect::<Vec<_>>(),
                        "frames": table.iter().map(|f| format!("[{},{}) {} opq={:#x}{}{}", f.start, f.end, op::name(f.opcode), f.opaque, if f.valid {""} else {" INVALID"}, if f.too_large {" TOOLARGE"} else {""})).collect::<Vec<_>>()});
                    let closes = table.iter().any(|f| f.opcode == op::QUIT || f.opcode == op::QUITQ || !f.valid);
                    let mut base: Option<SockOutcome> = None;
                    // response bytes per frame of the unsplit run (by opaque), for the owed-responses monitor
                    let mut per_frame: Vec<usize> = vec![];
                    for cs in &cutsets {
                        let srv = match Server::start(SrvCfg { item_limit: limit, idle_s: 2, ..Default::default() }) {
                            Ok(s) => s,
                            Err(_) => break,
                        };
                        evals += 1;
                        let owed = |n: usize| -> usize { table.iter().zip(per_frame.iter()).filter(|(f, _)| f.end <= n).map(|(_, r)| *r).sum() };
                        let out = match run_socket_stream_owed(&srv, &stream, cs, closes, if per_frame.is_empty() { None } else { Some(&owed) }) {
                            Ok(o) => o,
                            Err(_) => continue,
                        };
                        if let Some((sent, got, want)) = out.stalled {
                            shared.lock().unwrap().violation(
                                Viol::new(&["C10", "C12", "C09"], "complete-request-unanswered", format!("socket: after {} stream bytes the server is idle in read but has answered only {} of the {} response bytes owed for completely sent requests (cut set {:?})", sent, got, want, &cs[..cs.len().min(8)])),
                                describe(cs),
                            );
                            break;
                        }
                        *local.entry("unconfirmed_chunk_boundaries".into()).or_insert(0) += out.unconfirmed;
                        if out.end == End::Reset {
                            *local.entry("inconclusive:reset".into()).or_insert(0) += 1;
                            continue;
                        }
                        // strict parser on everything received (C11)
                        if let Err(e) = wire::parse_all(&out.rx) {
                            shared.lock().unwrap().violation(Viol::new(&["C11", "C09"], "resp-grammar", e), describe(cs));
                            break;
                        }
                        *local.entry("responses_parsed".into()).or_insert(0) += crate::sock::count_frames(&out.rx) as u64;
                        // correlation (C11): every response echoes opcode and opaque of a request of the stream, in
                        // request order (stat answers may repeat their request)
                        if let Ok(rs) = wire::parse_all(&out.rx) {
                            let mut pos = 0usize;
                            let mut stray: Option<String> = None;
                            for r in &rs {
                                if r.opaque == SENTINEL && r.opcode == op::NOOP {
                                    continue;
                                }
                                let from = pos.saturating_sub(1);
                                match (from..table.len()).find(|j| table[*j].opcode == r.opcode && table[*j].opaque == r.opaque) {
                                    Some(j) => pos = j + 1,
                                    None => {
                                        stray = Some(format!("response {} echoes no request of the stream at or after request #{}", r.brief(), from));
                                        break;
                                    }
                                }
                            }
                            *local.entry("responses_correlated".into()).or_insert(0) += rs.len() as u64;
                            if let Some(m) = stray {
                                shared.lock().unwrap().violation(Viol::new(&["C11"], "resp-uncorrelated", m), describe(cs));
                                break;
                            }
                        }
                        let mut store = vec![];
                        if let Ok(mut obs) = Cli::connect(srv.port) {
                            for k in [&b"a"[..], b"bb", b"key3", b"\0\xff\x80", b"counter", b"slip"] {
                                let r = ask(&mut obs, &wire::get(op::GET, k, 5));
                                store.push(r.filter(|r| r.status == st::OK).map(|r| (r.value.clone(), r.flags().unwrap_or(0))));
                            }
                        }
                        let panics = kv::take_server_panics();
                        if let Some(p) = panics.first() {
                            shared.lock().unwrap().violation(Viol::new(&["C10", "C09"], "panic-in-server", format!("a server task panicked: {}", p)), describe(cs));
                            break;
                        }
                        let o = SockOutcome { rx: out.rx.clone(), closed: out.end != End::Open || out.server_exited, frames: out.frames.iter().map(|f| f.0).collect(), store };
                        let splits = cs.iter().any(|x| !table.iter().any(|f| f.start == *x || f.end == *x));
                        if splits {
                            let mut h = fnv(&stream).to_le_bytes().to_vec();
                            for x in cs.iter().take(64) {
                                h.extend_from_slice(&(*x as u32).to_le_bytes());
                            }
                            fps.push(fnv(&h));
                        }
                        *local.entry(format!("distinct_read_splits:{}", out.reads.len().min(9))).or_insert(0) += 1;
                        match &base {
                            None => {
                                // responses of the unsplit run, attributed to frames by opaque, in order
                                let rs = parse_prefix(&o.rx);
                                per_frame = table
                                    .iter()
                                    .map(|f| rs.iter().filter(|r| r.opaque == f.opaque).map(|r| 24 + r.extras.len() + r.key.len() + r.value.len()).sum())
                                    .collect();
                                base = Some(o)
                            }
                            Some(b) => {
                                *local.entry("outcome_comparisons".into()).or_insert(0) += 1;
                                if *b != o {
                                    let what = if b.rx != o.rx {
                                        format!("response bytes differ ({} vs {} bytes)", o.rx.len(), b.rx.len())
                                    } else if b.closed != o.closed {
                                        format!("connection fate differs (closed {} vs {})", o.closed, b.closed)
                                    } else if b.frames != o.frames {
                                        format!("frames returned by the connection layer differ: {:?} vs {:?}", o.frames, b.frames)
                                    } else {
                                        "final store content differs".into()
                                    };
                                    let mut d = describe(cs);
                                    d["observed"] = json!({"reads": out.reads, "frames": out.frames, "unconfirmed_chunks": out.unconfirmed, "elapsed_ms": out.elapsed_ms, "chunks_sent": out.chunks_sent, "t_connect_us": out.t_connect_us, "steps": out.steps, "timeline": format!("{:?}", out.timeline), "server_port": srv.port, "end": format!("{:?}", out.end), "server_exited": out.server_exited, "rx_hex": wire::hex(&out.rx[..out.rx.len().min(400)]), "base_rx_hex": wire::hex(&b.rx[..b.rx.len().min(400)])});
                                    // fewer responses while the connection stays open: a completely sent request was
                                    // left unanswered (C10: each request is answered ...; C12: one response per loud request)
                                    let hang = (o.rx.len() < b.rx.len() && !o.closed) || (b.rx.len() < o.rx.len() && !b.closed);
                                    let tags: &[&'static str] = if hang { &["C09", "C13", "C10", "C12"] } else { &["C09", "C13"] };
                                    shared.lock().unwrap().violation(
                                        Viol::new(tags, "segmentation-dependent", format!("socket: cut set {:?} vs unsplit stream: {}", &cs[..cs.len().min(8)], what)),
                                        d,
                                    );
                                    break;
                                }
                            }
                        }
                    }
                    // one more delivery of the same bytes: everything in one write with the FIN right behind it
                    // (a one-shot client). The data and the end of the stream are then queued together; the
                    // server must still execute and answer everything before it acts on the end of the stream
                    if let Some(b) = &base {
                        if stream.len() > 2500 || c % 4 == 0 {
                            if let Ok(srv) = Server::start(SrvCfg { item_limit: limit, idle_s: 2, ..Default::default() }) {
                                if let Ok(mut cl) = Cli::connect(srv.port) {
                                    use std::io::Write;
                                    let _ = cl.s.write_all(&stream);
                                    cl.sent += stream.len() as u64;
                                    cl.half_close();
                                    cl.read_to_end(Duration::from_secs(4));
                                    evals += 1;
                                    *local.entry("one_shot_deliveries(write + FIN)".into()).or_insert(0) += 1;
                                    if cl.end != End::Reset && cl.rx != b.rx {
                                        let mut d = describe(&[]);
                                        d["observed"] = json!({"end": format!("{:?}", cl.end), "rx_len": cl.rx.len(), "base_rx_len": b.rx.len(), "stream_len": stream.len()});
                                        shared.lock().unwrap().violation(
                                            Viol::new(&["C09", "C18", "C12"], "fin-behind-data", format!("socket: the whole stream ({} bytes) written at once with the FIN right behind it produced {} response bytes, the same stream with the sending side left open {} bytes", stream.len(), cl.rx.len(), b.rx.len())),
                                            d,
                                        );
                                    }
                                }
                            }
                        }
                    }
                    if c < 2 {
                        shared.lock().unwrap().sample(describe(&[]));
                    }
                }
                let mut e = shared.lock().unwrap();
                e.evaluations += evals;
                e.merge_counters(&local);
                for f in fps {
                    e.nontrivial.insert(f);
                }
            });
        }
    });
    if matches!(ctx.prop.as_str(), "C09" | "C13" | "C11") && ctx.only_case.is_none() {
        slow_body_scenarios(&shared, ctx.thorough());
    }
    if matches!(ctx.prop.as_str(), "C11") && ctx.only_case.is_none() {
        idle_close_scenarios(&shared);
    }
    if matches!(ctx.prop.as_str(), "C10" | "C09") && ctx.only_case.is_none() {
        eof_mid_header_scenarios(&shared);
    }
    shared.into_inner().unwrap().finish()
}

// ---------------------------------------------------------------------------
// C11 leg: responses under back-pressure (large / many responses, client reads late)

pub const RULE_BP: &str = "a case is one (value size, number of pipelined gets, runtime flavour): a value is stored, N gets are written in one go and the client does not read for 300 ms, so that the server's writes meet a full socket buffer; then all responses are read and parsed strictly: N hits, each 24 + body-length bytes long with the exact value; non-trivial always; distinct by the case tuple";

pub fn run_backpressure(ctx: &Ctx) -> i32 {
    install_quiet_panic_hook();
    let mut ev = Evidence::new(ctx, "exploration", RULE_BP);
    ev.assumptions = vec!["loopback socket buffers are finite (default sysctl), so 16..32 MiB of queued responses exert back-pressure".into()];
    // (value size, number of gets, how long the client does not read, the server's timeout in seconds)
    let cases: Vec<(usize, usize, u64, u32)> = if ctx.thorough() {
        vec![(100, 20000, 300, 30), (64 << 10, 256, 300, 30), (1 << 20, 32, 300, 30), (4 << 20, 8, 300, 30), (8 << 20, 4, 300, 30), (333_333, 64, 300, 30), (16_385, 400, 300, 30), (1 << 20, 48, 2600, 1), (1 << 20, 48, 4200, 2)]
    } else {
        vec![(100, 5000, 300, 30), (64 << 10, 256, 300, 30), (1 << 20, 24, 300, 30), (4 << 20, 6, 300, 30), (16_385, 200, 300, 30), (1 << 20, 48, 2600, 1)]
    };
    for (ci, (size, n, stall_ms, idle_s)) in cases.iter().enumerate() {
        for flavour in [None, Some(2usize)] {
            let srv = match Server::start(SrvCfg { item_limit: 16 << 20, workers: flavour, idle_s: *idle_s, ..Default::default() }) {
                Ok(s) => s,
                Err(e) => {
                    ev.inconclusive.push(format!("server start: {}", e));
                    continue;
                }
            };
            ev.evaluations += 1;
            let value: Vec<u8> = (0..*size).map(|i| (i * 7 + ci) as u8).collect();
            let mut c = match Cli::connect(srv.port) {
                Ok(c) => c,
                Err(_) => continue,
            };
            let r = ask(&mut c, &wire::store(op::SET, b"big", &value, 0xf1a6, 0, 1, 0));
            if r.map(|r| r.status != st::OK).unwrap_or(true) {
                ev.inconclusive.push("set of the big value failed".into());
                continue;
            }
            c.rx.clear();
            let mut reqs = vec![];
            for i in 0..*n {
                wire::get(if i % 2 == 0 { op::GET } else { op::GETK }, b"big", 100 + i as u32).encode_into(&mut reqs);
            }
            use std::io::Write;
            let _ = c.s.write_all(&reqs);
            // (a stall longer than the server's timeout: whatever the server does about a client that does
            // not read - wait, or hang up - what arrives must be whole responses in order, at most cut off
            // once, at the end)
            std::thread::sleep(Duration::from_millis(*stall_ms));
            // now read everything
            let want = *n;
            let t0 = Instant::now();
            let mut last_len = 0;
            let mut idle = Instant::now();
            loop {
                c.read_frames(want, Duration::from_millis(200));
                if crate::sock::count_frames(&c.rx) >= want || c.end != End::Open {
                    break;
                }
                if c.rx.len() != last_len {
                    last_len = c.rx.len();
                    idle = Instant::now();
                }
                if idle.elapsed() > Duration::from_secs(5) || t0.elapsed() > Duration::from_secs(120) {
                    break;
                }
            }
            let describe = json!({"engine":"backpressure","value_size":size,"gets":n,"client_stall_ms":stall_ms,"server_timeout_s":idle_s,"runtime":format!("{:?}",flavour),"received_bytes":c.rx.len(),"end":format!("{:?}",c.end)});
            ev.nontrivial.insert(fnv(format!("{}:{}:{}:{:?}", size, n, stall_ms, flavour).as_bytes()));
            ev.count("response_bytes_received", c.rx.len() as u64);
            let mut bad: Option<Viol> = None;
            // a server may hang up on a client that does not read for longer than its timeout: then the stream
            // may end inside a response, but only there
            let dropped_slow_reader = *stall_ms > (*idle_s as u64) * 1000 && c.end != End::Open;
            let complete = parse_prefix(&c.rx);
            let complete_len: usize = {
                let mut off = 0usize;
                while let Ok(Some((_, n))) = wire::parse_one(&c.rx[off..]) {
                    off += n;
                }
                off
            };
            let tail_is_torn_response = {
                let tail = &c.rx[complete_len..];
                let expect_getk = complete.len() % 2 == 1;
                tail.is_empty() || (tail[0] == 0x81 && (tail.len() < 2 || tail[1] == if expect_getk { op::GETK } else { op::GET }))
            };
            match wire::parse_all(&c.rx) {
                Err(_) if dropped_slow_reader && tail_is_torn_response && complete.iter().enumerate().all(|(i, r)| r.status == st::OK && r.value == value && r.opaque == 100 + i as u32) => {
                    ev.count("slow_reader_dropped_at_a_response_boundary_or_inside_one", 1);
                }
                Err(e) => bad = Some(Viol::new(&["C11", "C12", "C01"], "resp-grammar-under-backpressure", format!("{} gets of a {}-byte value, client not reading for {} ms (server timeout {} s): {}", n, size, stall_ms, idle_s, e))),
                Ok(rs) => {
                    ev.count("responses_parsed", rs.len() as u64);
                    if rs.len() != want && dropped_slow_reader && rs.iter().enumerate().all(|(i, r)| r.status == st::OK && r.value == value && r.opaque == 100 + i as u32) {
                        ev.count("slow_reader_dropped_at_a_response_boundary_or_inside_one", 1);
                    } else if rs.len() != want {
                        bad = Some(Viol::new(&["C11", "C12", "C01"], "responses-missing-under-backpressure", format!("{} of {} responses arrived (connection {:?})", rs.len(), want, c.end)));
                    } else {
                        for (i, r) in rs.iter().enumerate() {
                            let key_ok = if i % 2 == 0 { r.key.is_empty() } else { r.key == b"big" };
                            if r.status != st::OK || r.value != value || r.opaque != 100 + i as u32 || r.flags() != Some(0xf1a6) || !key_ok {
                                bad = Some(Viol::new(&["C11", "C01"], "response-corrupt-under-backpressure", format!("response #{}: {}", i, r.brief())));
                                break;
                            }
                        }
                    }
                }
            }
            for p in kv::take_server_panics() {
                bad = Some(Viol::new(&["C10", "C11"], "panic-in-server", p));
            }
            ev.sample(describe.clone());
            if let Some(v) = bad {
                ev.violation(v, describe);
            }
        }
    }
    ev.finish()
}

// ---------------------------------------------------------------------------
// C10 leg: memory buffered for a connection stays bounded whatever a header announces

pub const RULE_BLOAT: &str = "a case is one (item limit, announced body length, runtime flavour): 8 connections send a header announcing the body and stream up to 32 MiB of it; the process' live heap (counting global allocator of the harness binary) is sampled throughout; the growth attributable to the 8 connections must stay below 8 x (limit + 64 KiB scratch + 256 KiB slack); fully streamed bodies must be answered 0x03 and the connection must still serve a noop; non-trivial always; distinct by the case tuple";

pub fn run_bloat(ctx: &Ctx) -> i32 {
    install_quiet_panic_hook();
    let mut ev = Evidence::new(ctx, "exploration", RULE_BLOAT);
    ev.assumptions = vec!["heap attribution by a counting #[global_allocator] in the harness binary; the engine runs single-threaded so that no other workload allocates meanwhile".into()];
    let limits: Vec<u32> = vec![1024, 64 << 10, 1 << 20];
    let stream_cap: usize = if ctx.thorough() { 64 << 20 } else { 16 << 20 };
    for l in &limits {
        for announced in [*l as u64 + 1, 16 << 20, u32::MAX as u64] {
            for flavour in [None, Some(2usize)] {
                if !ctx.thorough() && flavour.is_some() && announced != 16 << 20 {
                    continue;
                }
                let srv = match Server::start(SrvCfg { item_limit: *l, workers: flavour, ..Default::default() }) {
                    Ok(s) => s,
                    Err(_) => continue,
                };
                ev.evaluations += 1;
                let nconn = 8;
                let mut clis: Vec<Cli> = (0..nconn).filter_map(|_| Cli::connect(srv.port).ok()).collect();
                // warm up: one noop each, so that per-connection state exists
                for c in clis.iter_mut() {
                    let _ = ask(c, &wire::simple(op::NOOP, 1));
                    c.rx.clear();
                    c.rx.shrink_to_fit();
                }
                let chunk = vec![b'z'; 64 << 10];
                let base = crate::alloc::live();
                crate::alloc::reset_peak();
                let to_stream = (announced as usize).min(stream_cap);
                for c in clis.iter_mut() {
                    let mut h = wire::store(op::SET, b"bloat", b"", 0, 0, 7, 0);
                    h.body_len = announced as u32;
                    let hb = h.encode();
                    c.send_chunk(&hb[..24]);
                }
                let mut sent = 0usize;
                while sent < to_stream {
                    let n = chunk.len().min(to_stream - sent);
                    for c in clis.iter_mut() {
                        c.send_chunk(&chunk[..n]);
                    }
                    sent += n;
                }
                let peak = crate::alloc::peak();
                let growth = peak.saturating_sub(base);
                let bound = nconn * (*l as usize + (64 << 10) + (256 << 10));
                let describe = json!({"engine":"bloat","limit":l,"announced_body":announced,"streamed_per_connection":to_stream,"connections":nconn,"runtime":format!("{:?}",flavour),"heap_growth":growth,"bound":bound});
                ev.nontrivial.insert(fnv(format!("{}:{}:{:?}", l, announced, flavour).as_bytes()));
                ev.count("bytes_streamed", (to_stream * nconn) as u64);
                ev.sample(describe.clone());
                if growth > bound {
                    ev.violation(
                        Viol::new(&["C10"], "connection-memory-bloat", format!("heap grew by {} bytes while 8 connections streamed {} bytes each of a body announced as {} (item limit {}, bound {})", growth, to_stream, announced, l, bound)),
                        describe.clone(),
                    );
                }
                // fully streamed bodies: answered 'too large', connection still usable
                if to_stream as u64 == announced {
                    for c in clis.iter_mut() {
                        let r = ask(c, &wire::simple(op::NOOP, 9));
                        let rs = parse_prefix(&c.rx);
                        let ok = rs.iter().any(|r| r.opaque == 7 && r.status == st::TOO_LARGE) && r.map(|r| r.status == st::OK).unwrap_or(false);
                        ev.count("oversized_answered_checks", 1);
                        if !ok {
                            ev.violation(
                                Viol::new(&["C10", "C13"], "oversized-not-answered", format!("after streaming a {}-byte body (limit {}): responses {:?}", announced, l, rs.iter().map(|r| r.brief()).collect::<Vec<_>>())),
                                describe.clone(),
                            );
                            break;
                        }
                    }
                }
                for p in kv::take_server_panics() {
                    ev.violation(Viol::new(&["C10"], "panic-in-server", p), describe.clone());
                }
            }
        }
    }
    // the other direction: a client pipelines many gets of a large item and does not read. What the server holds
    // for that connection must stay bounded (the socket's back-pressure has to reach the request loop): it may
    // not execute the whole pipeline and keep every response in memory
    for flavour in [None, Some(2usize)] {
        let srv = match Server::start(SrvCfg { item_limit: 2 << 20, workers: flavour, ..Default::default() }) {
            Ok(s) => s,
            Err(_) => continue,
        };
        let mut c = match Cli::connect(srv.port) {
            Ok(c) => c,
            Err(_) => continue,
        };
        let value = vec![b'r'; 1 << 20];
        if ask(&mut c, &wire::store(op::SET, b"big", &value, 0, 0, 1, 0)).map(|r| r.status != st::OK).unwrap_or(true) {
            continue;
        }
        drop(value);
        c.rx.clear();
        c.rx.shrink_to_fit();
        std::thread::sleep(Duration::from_millis(50));
        let base = crate::alloc::live();
        crate::alloc::reset_peak();
        let n = 64usize;
        let mut reqs = vec![];
        for i in 0..n {
            wire::get(op::GET, b"big", 100 + i as u32).encode_into(&mut reqs);
        }
        use std::io::Write;
        let _ = c.s.write_all(&reqs);
        std::thread::sleep(Duration::from_millis(1500));
        let growth = crate::alloc::peak().saturating_sub(base);
        // one response being written + what the kernel's socket buffers take is not heap; 8 MiB is generous
        let bound = 8usize << 20;
        let describe = json!({"engine":"bloat","scenario":"64 pipelined gets of a 1 MiB item, client not reading","runtime":format!("{:?}",flavour),"heap_growth":growth,"bound":bound});
        ev.evaluations += 1;
        ev.nontrivial.insert(fnv(format!("bloat-unread:{:?}", flavour).as_bytes()));
        ev.count("unread_pipeline:heap_growth_bytes", growth as u64);
        if growth > bound {
            ev.violation(
                Viol::new(&["C10"], "response-queue-bloat", format!("heap grew by {} bytes while a client that had pipelined {} gets of a 1 MiB item was not reading (bound {}): responses are being held in memory instead of the request loop feeling the back-pressure", growth, n, bound)),
                describe,
            );
        }
        // then the client reads: everything must still arrive
        c.read_frames(n, Duration::from_secs(30));
        if crate::sock::count_frames(&c.rx) != n {
            ev.inconclusive.push(format!("unread-pipeline scenario: only {} of {} responses arrived afterwards", crate::sock::count_frames(&c.rx), n));
        }
    }
    ev.finish()
}

// ---------------------------------------------------------------------------
// C08 leg: what a flush removes, seen through a pipeline (socket level)

pub const RULE_FLUSHORDER: &str = "a case is one (store size, flush | flushq, runtime flavour): a dedicated server is prefilled, one segment carries `get old, flush, get old, getk old, set new, add old, incr new, get new, noop`; every item stored before the flush must be unretrievable behind it, every item stored after it must be unaffected by it - in the pipeline's own responses and 30 / 300 ms later through another connection; non-trivial always; distinct by the case tuple";

pub fn run_flush_order(ctx: &Ctx) -> i32 {
    install_quiet_panic_hook();
    let mut ev0 = Evidence::new(ctx, "exploration", RULE_FLUSHORDER);
    ev0.assumptions = vec!["in-process MemcacheTcpServer on loopback; store prefilled through MemcStore's own front door".into()];
    let shared = Mutex::new(ev0);
    flush_order_scenarios(ctx, &shared);
    shared.into_inner().unwrap().finish()
}

// ---------------------------------------------------------------------------
// C06 leg: append / prepend results that reach the item size limit (socket level: the limit is configured
// in the server, not in the store)

pub const RULE_APPENDLIMIT: &str = "a case is one (item limit, append | prepend, loud | quiet, size of the result relative to the limit): an item is stored, a suffix/prefix is added so that the resulting value is limit-30 .. limit bytes long (every request body is within the limit), the result is read back; the command must succeed and the value must be exactly old+suffix resp. prefix+old with the item's flags; non-trivial always; distinct by the case tuple";

pub fn run_append_limit(ctx: &Ctx) -> i32 {
    install_quiet_panic_hook();
    let mut ev = Evidence::new(ctx, "exploration", RULE_APPENDLIMIT);
    ev.assumptions = vec!["in-process MemcacheTcpServer on loopback; the item limit bounds request bodies, results may be as large as the limit".into()];
    for (li, limit) in [1024u32, 4096, 65536].into_iter().enumerate() {
        for policy in [StoreKind::Plain, StoreKind::Random(1 << 30)] {
            let srv = match Server::start(SrvCfg { item_limit: limit, store: policy, workers: if li % 2 == 0 { None } else { Some(2) }, ..Default::default() }) {
                Ok(s) => s,
                Err(e) => {
                    ev.inconclusive.push(format!("server start: {}", e));
                    continue;
                }
            };
            let mut c = match Cli::connect(srv.port) {
                Ok(c) => c,
                Err(_) => continue,
            };
            let mut n = 0u32;
            for append in [true, false] {
                for quiet in [false, true] {
                    for short in [30usize, 25, 24, 23, 12, 1, 0] {
                        n += 1;
                        let key = format!("al-{}", n).into_bytes();
                        let total = limit as usize - short;
                        let add_len = 64usize;
                        let old: Vec<u8> = (0..total - add_len).map(|i| b'a' + (i % 26) as u8).collect();
                        let add: Vec<u8> = (0..add_len).map(|i| b'A' + (i % 26) as u8).collect();
                        ev.evaluations += 1;
                        ev.nontrivial.insert(fnv(format!("{}:{:?}:{}:{}:{}", limit, policy, append, quiet, short).as_bytes()));
                        let describe = json!({"engine":"appendlimit","limit":limit,"store":format!("{:?}",policy),"append":append,"quiet":quiet,"result_len":total});
                        let r0 = ask(&mut c, &wire::store(op::SET, &key, &old, 0xabc, 0, n, 0));
                        if r0.map(|r| r.status != st::OK).unwrap_or(true) {
                            ev.violation(Viol::new(&["C13", "C06"], "within-limit-store-refused", format!("set of a {}-byte value under limit {} failed", old.len(), limit)), describe);
                            continue;
                        }
                        let opc = match (append, quiet) {
                            (true, false) => op::APPEND,
                            (true, true) => op::APPENDQ,
                            (false, false) => op::PREPEND,
                            (false, true) => op::PREPENDQ,
                        };
                        use std::io::Write;
                        let mut req = wire::concat(opc, &key, &add, 1000 + n, 0).encode();
                        req.extend(wire::get(op::GET, &key, 2000 + n).encode());
                        let _ = c.s.write_all(&req);
                        c.sent += req.len() as u64;
                        c.read_frames(crate::sock::count_frames(&c.rx) + if quiet { 1 } else { 2 }, Duration::from_secs(5));
                        let rs = parse_prefix(&c.rx);
                        let ans = rs.iter().find(|r| r.opaque == 1000 + n).cloned();
                        let got = rs.iter().find(|r| r.opaque == 2000 + n).cloned();
                        let want: Vec<u8> = if append { [old.clone(), add.clone()].concat() } else { [add.clone(), old.clone()].concat() };
                        let cmd_ok = if quiet { ans.is_none() } else { ans.as_ref().map(|r| r.status == st::OK).unwrap_or(false) };
                        let val_ok = got.as_ref().map(|r| r.status == st::OK && r.value == want && r.flags() == Some(0xabc)).unwrap_or(false);
                        ev.count("append_limit:results_checked", 1);
                        if !cmd_ok || !val_ok {
                            ev.violation(
                                Viol::new(
                                    &["C06", "C13"],
                                    "result-at-limit",
                                    format!(
                                        "limit {}: {} of {} bytes to an item of {} bytes (result {} bytes = limit - {}): answered {:?}, read back {:?}",
                                        limit, op::name(opc), add_len, old.len(), total, short, ans.map(|r| r.brief()), got.map(|r| format!("st={:#x} len={} flags={:?}", r.status, r.value.len(), r.flags()))
                                    ),
                                ),
                                describe,
                            );
                        }
                        c.rx.clear();
                    }
                }
            }
        }
    }
    for p in kv::take_server_panics() {
        ev.violation(Viol::new(&["C10", "C06"], "panic-in-server", p), json!({"engine":"appendlimit"}));
    }
    ev.finish()
}
