//! `evict` (C14) and `acct` (C15) engines: random eviction policy under
//! sequential workloads and concurrent store batches.

use crate::ev::{fnv, Ctx, Evidence, Viol};
use crate::gate::{self, Ctl, Park, Stall};
use crate::kv::install_quiet_panic_hook;
use crate::l1::{Conn, Stack, StoreKind};
use crate::wire::{self, op, st, Resp};
use bytes::Bytes;
use memcrs::cache::cache::impl_details::CacheImplDetails;
use rand::rngs::SmallRng;
use rand::{Rng, SeedableRng};
use serde_json::json;
use std::collections::{BTreeMap, HashMap};
use std::sync::atomic::{AtomicU64, Ordering};
use std::sync::{Arc, Barrier, Mutex};
use std::time::{Duration, Instant};

fn keyname(i: usize) -> Vec<u8> {
    format!("key-{}", i).into_bytes()
}

fn stored_len(stack: &Stack, key: &[u8]) -> Option<u64> {
    stack.inner.get_by_key(&Bytes::copy_from_slice(key)).ok().map(|r| r.len() as u64)
}

fn one(conn: &mut Conn, f: wire::Frame) -> Option<Resp> {
    let out = conn.feed(&f.encode());
    wire::parse_all(&out.bytes).ok().and_then(|v| v.into_iter().next())
}

#[derive(Clone, Debug)]
enum W {
    Set { k: usize, len: usize, ttl: u32, cas: u64 },
    Add { k: usize, len: usize },
    Replace { k: usize, len: usize },
    Append { k: usize, len: usize },
    Prepend { k: usize, len: usize },
    Incr { k: usize },
    Decr { k: usize },
    Delete { k: usize, cas: u64 },
    Get { k: usize },
    Flush { delay: Option<u32> },
    Advance(u64),
}

impl W {
    fn kind(&self) -> &'static str {
        match self {
            W::Set { .. } => "set",
            W::Add { .. } => "add",
            W::Replace { .. } => "replace",
            W::Append { .. } => "append",
            W::Prepend { .. } => "prepend",
            W::Incr { .. } => "incr",
            W::Decr { .. } => "decr",
            W::Delete { .. } => "delete",
            W::Get { .. } => "get",
            W::Flush { .. } => "flush",
            W::Advance(_) => "advance",
        }
    }
    fn key(&self) -> Option<usize> {
        match self {
            W::Set { k, .. } | W::Add { k, .. } | W::Replace { k, .. } | W::Append { k, .. } | W::Prepend { k, .. } | W::Incr { k } | W::Decr { k } | W::Delete { k, .. } | W::Get { k } => Some(*k),
            _ => None,
        }
    }
    fn is_store(&self) -> bool {
        matches!(self, W::Set { .. } | W::Add { .. } | W::Replace { .. } | W::Append { .. } | W::Prepend { .. } | W::Incr { .. } | W::Decr { .. })
    }
    fn frame(&self, opaque: u32) -> Option<wire::Frame> {
        let val = |n: usize| -> Vec<u8> { (0..n).map(|i| b'a' + (i % 23) as u8).collect() };
        Some(match self {
            W::Set { k, len, ttl, cas } => wire::store(op::SET, &keyname(*k), &val(*len), 5, *ttl, opaque, *cas),
            W::Add { k, len } => wire::store(op::ADD, &keyname(*k), &val(*len), 6, 0, opaque, 0),
            W::Replace { k, len } => wire::store(op::REPLACE, &keyname(*k), &val(*len), 7, 0, opaque, 0),
            W::Append { k, len } => wire::concat(op::APPEND, &keyname(*k), &val(*len), opaque, 0),
            W::Prepend { k, len } => wire::concat(op::PREPEND, &keyname(*k), &val(*len), opaque, 0),
            W::Incr { k } => wire::counter(op::INCR, &keyname(*k), 1, 1000, 0, opaque, 0),
            W::Decr { k } => wire::counter(op::DECR, &keyname(*k), 1, 1000, 0, opaque, 0),
            W::Delete { k, cas } => wire::delete(op::DELETE, &keyname(*k), opaque, *cas),
            W::Get { k } => wire::get(op::GET, &keyname(*k), opaque),
            W::Flush { delay } => wire::flush(op::FLUSH, *delay, opaque),
            W::Advance(_) => return None,
        })
    }
}

fn gen_w(rng: &mut SmallRng, nkeys: usize, maxlen: usize, with_flush: bool, with_ttl: bool) -> W {
    let k = rng.gen_range(0..nkeys);
    let len = match rng.gen_range(0..6) {
        0 => 0,
        1 => rng.gen_range(0..8),
        2 => maxlen,
        _ => rng.gen_range(0..=maxlen),
    };
    match rng.gen_range(0..100) {
        0..=34 => W::Set {
            k,
            len,
            ttl: if with_ttl && rng.gen_bool(0.25) { rng.gen_range(1..6) } else { 0 },
            cas: if rng.gen_bool(0.12) { rng.gen_range(1..50) } else { 0 },
        },
        35..=41 => W::Add { k, len },
        42..=47 => W::Replace { k, len },
        48..=55 => W::Append { k, len: len.min(40) },
        56..=59 => W::Prepend { k, len: len.min(40) },
        60..=66 => W::Incr { k },
        67..=69 => W::Decr { k },
        70..=79 => W::Delete { k, cas: if rng.gen_bool(0.2) { rng.gen_range(1..50) } else { 0 } },
        80..=91 => W::Get { k },
        92..=93 if with_flush => W::Flush { delay: if rng.gen_bool(0.5) { None } else { Some(rng.gen_range(1..5)) } },
        94..=97 if with_ttl => W::Advance(rng.gen_range(1..4)),
        _ => W::Get { k },
    }
}

pub const RULE_C14: &str = "a case is one run: either a sequential workload of stores/overwrites/appends/counter updates/deletes/flushes/expiries under a memory limit L (after every command the sum of Record::len() over the inner store is compared with L + the record of the most recent successful store), or a concurrent batch of 2..8 stores (gate plans over the policy.* hook points, jitter, free scheduling; compared at quiescence with L + the batch's records); non-trivial when at least one eviction happened; distinct by (L, run kind, command-kind histogram bucket, eviction-count bucket)";

pub fn run_c14(ctx: &Ctx) -> i32 {
    install_quiet_panic_hook();
    gate::install_hook();
    let mut ev0 = Evidence::new(ctx, "exploration", RULE_C14);
    ev0.assumptions = vec![
        "content is measured through the public Cache::remove_if with an always-false predicate and Record::len()".into(),
        "eviction steps are counted through the cfg(memcrs_verif) hook points policy.evict.pick / policy.evict.done".into(),
    ];
    let shared = Mutex::new(ev0);
    let limits: [u64; 9] = [0, 10, 30, 100, 300, 1000, 5000, 10_000, 1_000_000];
    // (under Miri a shard interprets a handful of runs of each kind; the shards differ in their seeds)
    let nseq = if cfg!(miri) { 4 } else { ctx.n(400, 1200) };
    let nbatch = if cfg!(miri) { 6 } else { ctx.n(300, 1200) };
    let nmixed = if cfg!(miri) { 6 } else { ctx.n(600, 2400) };
    let nreset = if cfg!(miri) { 1 } else { 8 };
    let next = AtomicU64::new(0);
    let deadline = if ctx.budget_s > 0 { Some(Instant::now() + Duration::from_secs(ctx.budget_s)) } else { None };
    let miri = cfg!(miri);
    let workers = if miri { 1 } else { ctx.workers };
    // supervision of the sequential runs: a store whose eviction round never ends would otherwise hang
    // the worker (and the check) for ever
    let beat: Vec<Arc<AtomicU64>> = (0..workers).map(|_| Arc::new(AtomicU64::new(0))).collect();
    let wtid: Vec<AtomicU64> = (0..workers).map(|_| AtomicU64::new(0)).collect();
    let wcase: Vec<AtomicU64> = (0..workers).map(|_| AtomicU64::new(u64::MAX)).collect();
    let finished = AtomicU64::new(0);
    std::thread::scope(|s| {
        if !miri {
            let (beat, wtid, wcase, finished, shared) = (&beat, &wtid, &wcase, &finished, &shared);
            s.spawn(move || {
                let mut last: Vec<(u64, Instant)> = beat.iter().map(|b| (b.load(Ordering::Relaxed), Instant::now())).collect();
                while (finished.load(Ordering::Relaxed) as usize) < workers {
                    std::thread::sleep(Duration::from_millis(500));
                    for w in 0..workers {
                        let b = beat[w].load(Ordering::Relaxed);
                        if b != last[w].0 {
                            last[w] = (b, Instant::now());
                        } else if last[w].1.elapsed() > Duration::from_secs(15) && wcase[w].load(Ordering::Relaxed) != u64::MAX {
                            let tid = wtid[w].load(Ordering::Relaxed) as i32;
                            let bw = &beat[w];
                            let verdict = gate::classify_stall(&[tid], &move || bw.load(Ordering::Relaxed), 15);
                            let case = wcase[w].load(Ordering::Relaxed);
                            let (sig, msg) = match verdict {
                                Stall::Deadlock(m) => ("deadlock", m),
                                Stall::Livelock(m) => ("livelock", m),
                                Stall::Slow => continue,
                            };
                            let mut e = shared.lock().unwrap();
                            e.violation(
                                Viol::new(&["C14", "C16"], sig, format!("a store in sequential eviction run {} does not return: {}", case, msg)),
                                json!({"engine":"evict-seq","case":case,"replay_cmd":format!("/verif/check C14 replay --case {}", case)}),
                            );
                            let ev = std::mem::replace(&mut *e, Evidence::new(ctx, "exploration", RULE_C14));
                            std::process::exit(ev.finish());
                        }
                    }
                }
            });
        }
        for w in 0..workers {
            let (beat, wtid, wcase, finished) = (&beat, &wtid, &wcase, &finished);
            let (next, shared, limits) = (&next, &shared, &limits);
            s.spawn(move || {
                wtid[w].store(gate::gettid() as u64, Ordering::Relaxed);
                BEAT.with(|b| *b.borrow_mut() = Some(beat[w].clone()));
                let mut local: BTreeMap<String, u64> = BTreeMap::new();
                let mut fps: Vec<u64> = vec![];
                let mut evals = 0u64;
                loop {
                    let c = next.fetch_add(1, Ordering::Relaxed);
                    let total = nseq + nbatch + nmixed + nreset;
                    let over = match deadline {
                        Some(d) => Instant::now() > d && c >= total,
                        None => c >= total,
                    };
                    if over {
                        break;
                    }
                    if let Some(o) = ctx.only_case {
                        if c != o {
                            if c > o {
                                break;
                            }
                            continue;
                        }
                    }
                    let mut rng = SmallRng::seed_from_u64(ctx.case_seed("evict", c));
                    let l = limits[rng.gen_range(0..limits.len())];
                    evals += 1;
                    let cc = c % (nseq + nbatch + nmixed + nreset);
                    let seq = cc < nseq;
                    let mixed = cc >= nseq + nbatch && cc < nseq + nbatch + nmixed;
                    let reset = cc >= nseq + nbatch + nmixed;
                    // concurrent batches supervise themselves
                    wcase[w].store(if seq { c } else { u64::MAX }, Ordering::Relaxed);
                    beat[w].fetch_add(1, Ordering::Relaxed);
                    let r = if seq {
                        seq_run(ctx, c, l, &mut rng, &mut local)
                    } else if mixed {
                        mixed_run(ctx, c, &mut rng, &mut local)
                    } else if reset {
                        reset_run(ctx, c, &mut local)
                    } else {
                        batch_run(ctx, c, l, &mut rng, &mut local)
                    };
                    match r {
                        Ok((evictions, hist)) => {
                            if evictions > 0 {
                                fps.push(fnv(format!("{}:{}:{}:{}", l, seq, hist, 64 - (evictions as u64).leading_zeros()).as_bytes()));
                            }
                        }
                        Err((v, d)) => {
                            let mut e = shared.lock().unwrap();
                            let stuck = matches!(v.sig.as_str(), "deadlock" | "livelock");
                            e.violation(v, d);
                            if stuck {
                                let ev = std::mem::replace(&mut *e, Evidence::new(ctx, "exploration", RULE_C14));
                                std::process::exit(ev.finish());
                            }
                        }
                    }
                    if c < 2 {
                        let kind = if seq { "sequential" } else { "concurrent batch" };
                        shared.lock().unwrap().sample(json!({"case": c, "limit": l, "kind": kind}));
                    }
                }
                wcase[w].store(u64::MAX, Ordering::Relaxed);
                finished.fetch_add(1, Ordering::Relaxed);
                let mut e = shared.lock().unwrap();
                e.evaluations += evals;
                e.merge_counters(&local);
                for f in fps {
                    e.nontrivial.insert(f);
                }
            });
        }
    });
    shared.into_inner().unwrap().finish()
}

thread_local! {
    /// address of the worker's heartbeat counter (bumped after every command of a sequential run)
    static BEAT: std::cell::RefCell<Option<Arc<AtomicU64>>> = const { std::cell::RefCell::new(None) };
}

fn heartbeat() {
    BEAT.with(|b| {
        if let Some(p) = b.borrow().as_ref() {
            p.fetch_add(1, Ordering::Relaxed);
        }
    });
}

type RunErr = (Viol, serde_json::Value);

fn seq_run(ctx: &Ctx, case: u64, l: u64, rng: &mut SmallRng, local: &mut BTreeMap<String, u64>) -> Result<(u64, u64), RunErr> {
    let stack = Stack::new(StoreKind::Random(l), 100);
    let mut conn = Conn::new(stack.memc.clone(), 1 << 20);
    let ctl = Ctl::new(1, vec![], None, 1);
    gate::bind(Some((ctl.clone(), 0)));
    let n = if cfg!(miri) { 60 } else { ctx.n(3000, 3000).min(3000) as usize };
    // (a fifth of the runs have hundreds of keys, so that one large store has to evict dozens of small records)
    let nkeys = if rng.gen_ratio(1, 5) { rng.gen_range(100..400) } else { rng.gen_range(2..40) };
    let maxlen = [8usize, 64, 300, 4096][rng.gen_range(0..4)].min(if l < 2000 { 300 } else { 4096 });
    let mut last_len: u64 = 0;
    let mut trace: Vec<String> = vec![];
    let mut evictions = 0u64;
    let mut hist = [0u64; 11];
    let picks = |ctl: &Ctl| ctl.counts.lock().unwrap().get("policy.evict.pick").copied().unwrap_or(0);
    let dones = |ctl: &Ctl| ctl.counts.lock().unwrap().get("policy.evict.done").copied().unwrap_or(0);
    let describe = |trace: &Vec<String>| json!({"engine":"evict-seq","case":case,"limit":l,"last_commands":trace.iter().rev().take(30).rev().collect::<Vec<_>>(),"replay_cmd":format!("/verif/check C14 replay --case {}", case)});
    // with hundreds of keys the store fills up with tiny records, and now and then one store is a hundred times
    // larger than they are: it has to evict dozens of records, and the store after it must again end within
    // L + its own record
    let tiny_huge = nkeys >= 100 && l >= 2000;
    for i in 0..n {
        let w = if tiny_huge {
            match rng.gen_range(0..20) {
                0 => W::Set { k: rng.gen_range(0..nkeys), len: rng.gen_range((l as usize / 4).min(60_000)..=(l as usize / 2).min(120_000)), ttl: 0, cas: 0 },
                1 | 2 => gen_w(rng, nkeys, maxlen, true, true),
                _ => W::Set { k: rng.gen_range(0..nkeys), len: rng.gen_range(0..8), ttl: 0, cas: 0 },
            }
        } else {
            gen_w(rng, nkeys, maxlen, true, true)
        };
        if let W::Advance(d) = w {
            stack.timer.advance(d);
            continue;
        }
        heartbeat();
        let (n_before, _) = stack.content_size();
        let p0 = picks(&ctl);
        let d0 = dones(&ctl);
        let resp = one(&mut conn, w.frame(i as u32).unwrap());
        let p1 = picks(&ctl);
        evictions += dones(&ctl) - d0;
        let status = resp.as_ref().map(|r| r.status).unwrap_or(0xffff);
        trace.push(format!("#{} {:?} -> {:#x}", i, w, status));
        if trace.len() > 64 {
            trace.remove(0);
        }
        hist[(fnv(w.kind().as_bytes()) % 11) as usize] += 1;
        *local.entry(format!("seq:{}:{:#x}", w.kind(), status)).or_insert(0) += 1;
        // termination: one pass per evicted record plus slack
        if p1 - p0 > n_before + 2 {
            gate::bind(None);
            return Err((Viol::new(&["C14", "C16"], "eviction-steps", format!("one store needed {} eviction passes with {} records stored", p1 - p0, n_before)), describe(&trace)));
        }
        if w.is_store() && status == st::OK {
            let k = keyname(w.key().unwrap());
            match stored_len(&stack, &k) {
                Some(len) => last_len = len,
                None => {
                    gate::bind(None);
                    return Err((Viol::new(&["C14"], "written-record-evicted", format!("the record just acknowledged by {:?} is not in the store", w)), describe(&trace)));
                }
            }
            // and it is retrievable (unless it carries a TTL that the clock has not passed: it has not)
            let g = one(&mut conn, wire::get(op::GET, &k, 0));
            *local.entry("seq:read_back_after_store".into()).or_insert(0) += 1;
            if g.map(|r| r.status != st::OK).unwrap_or(true) {
                gate::bind(None);
                return Err((Viol::new(&["C14", "C01"], "written-record-not-returned", format!("get right after acknowledged {:?} misses", w)), describe(&trace)));
            }
        }
        let (_, bytes) = stack.content_size();
        *local.entry("seq:size_comparisons".into()).or_insert(0) += 1;
        if bytes > l + last_len {
            gate::bind(None);
            return Err((
                Viol::new(&["C14"], "over-limit", format!("after {:?}: {} bytes stored > limit {} + record just written {}", w, bytes, l, last_len)),
                describe(&trace),
            ));
        }
    }
    gate::bind(None);
    *local.entry("seq:evictions".into()).or_insert(0) += evictions;
    let h = fnv(&hist.iter().map(|x| (64 - x.leading_zeros()) as u8).collect::<Vec<u8>>());
    Ok((evictions, h))
}

/// One store that has to evict, parked between choosing its victim and sweeping the map, while another
/// connection deletes a record: the round may then find nothing to evict, and the store must go on evicting
/// until it is back under the limit. With nothing in progress afterwards: stored bytes <= L + that store's record.
fn evict_race_run(ctx: &Ctx, case: u64, rng: &mut SmallRng, local: &mut BTreeMap<String, u64>) -> Result<(u64, u64), RunErr> {
    let l = [600u64, 1000, 1500][rng.gen_range(0..3)];
    let stack = Stack::new(StoreKind::Random(l), 100);
    let mut conn = Conn::new(stack.memc.clone(), 1 << 20);
    // fresh keys only: the accounting of the prefix is exact, the store is full (L + the last record at most)
    let npre = rng.gen_range(3..7usize);
    for i in 0..npre {
        let len = rng.gen_range(60..(l as usize / 2));
        let _ = one(&mut conn, W::Set { k: 100 + i, len, ttl: 0, cas: 0 }.frame(0).unwrap());
    }
    let present: Vec<usize> = (0..npre).filter(|i| stored_len(&stack, &keyname(100 + i)).is_some()).collect();
    if present.len() < 2 {
        return Ok((0, 0));
    }
    let victim = present[rng.gen_range(0..present.len())];
    let ulen = rng.gen_range(40..120usize);
    let progs = [W::Set { k: 1, len: ulen, ttl: 0, cas: 0 }, W::Delete { k: 100 + victim, cas: 0 }];
    let point = ["policy.evict.pick", "policy.evict.pick", "policy.evict.pick", "policy.accounted", "policy.evict.done"][rng.gen_range(0..5)];
    let parks = vec![Park { client: 0, point, nth: 0, wait_for: vec![1] }];
    let ctl = Ctl::new(2, parks, None, ctx.case_seed("evict-race", case));
    let barrier = Arc::new(Barrier::new(2));
    let mut handles = vec![];
    let results: Arc<Mutex<HashMap<usize, u16>>> = Arc::new(Mutex::new(HashMap::new()));
    for (ci, w) in progs.iter().enumerate() {
        let (ctl, memc, w, barrier, results) = (ctl.clone(), stack.memc.clone(), w.clone(), barrier.clone(), results.clone());
        handles.push(std::thread::spawn(move || {
            gate::bind(Some((ctl.clone(), ci)));
            let mut conn = Conn::new(memc, 1 << 20);
            barrier.wait();
            if ci == 1 {
                std::thread::sleep(Duration::from_millis(if cfg!(miri) { 100 } else { 5 }));
            }
            let r = one(&mut conn, w.frame(ci as u32).unwrap());
            results.lock().unwrap().insert(ci, r.map(|r| r.status).unwrap_or(0xffff));
            ctl.op_done(ci);
            ctl.finished(ci);
            gate::bind(None);
        }));
    }
    for h in handles {
        let _ = h.join();
    }
    *local.entry("evict_race:runs".into()).or_insert(0) += 1;
    *local.entry("evict_race:windows_hit".into()).or_insert(0) += ctl.windows_hit.load(Ordering::SeqCst);
    let evictions = ctl.counts.lock().unwrap().get("policy.evict.done").copied().unwrap_or(0);
    let stored_ok = results.lock().unwrap().get(&0) == Some(&st::OK);
    let (n, bytes) = stack.content_size();
    let urec = stored_len(&stack, &keyname(1)).unwrap_or(24 + ulen as u64);
    *local.entry("evict_race:size_comparisons".into()).or_insert(0) += 1;
    if stored_ok && bytes > l + urec {
        return Err((
            Viol::new(
                &["C14"],
                "over-limit-evict-vs-delete",
                format!("limit {}: a store of a {}-byte record parked at {} while another connection deleted a record; with nothing in progress afterwards {} bytes are stored in {} records > limit + that record", l, urec, point, bytes, n),
            ),
            json!({"engine":"evict-race","case":case,"limit":l,"park":point,"stored":bytes,"records":n,"replay_cmd":format!("/verif/check C14 replay --case {}", case)}),
        ));
    }
    Ok((evictions, 4000 + npre as u64))
}

fn batch_run(ctx: &Ctx, case: u64, l: u64, rng: &mut SmallRng, local: &mut BTreeMap<String, u64>) -> Result<(u64, u64), RunErr> {
    if rng.gen_bool(0.5) {
        return evict_race_run(ctx, case, rng, local);
    }
    let stack = Stack::new(StoreKind::Random(l), 100);
    let mut conn = Conn::new(stack.memc.clone(), 1 << 20);
    // pre-fill
    let pre = rng.gen_range(0..30);
    let plen = [8usize, 50, 200][rng.gen_range(0..3)];
    // the record of the most recent successful store before the batch stays part of the bound
    let mut last_len = 0u64;
    for i in 0..pre {
        let r = one(&mut conn, W::Set { k: 100 + i, len: rng.gen_range(0..=plen), ttl: 0, cas: 0 }.frame(0).unwrap());
        if r.map(|r| r.status == st::OK).unwrap_or(false) {
            last_len = stored_len(&stack, &keyname(100 + i)).unwrap_or(last_len);
        }
    }
    let nthreads = if cfg!(miri) { 2 } else { rng.gen_range(2..=8) };
    let same_key = rng.gen_bool(0.3);
    let ws: Vec<W> = (0..nthreads)
        .map(|i| {
            let k = if same_key { 0 } else { i };
            match rng.gen_range(0..5) {
                0 => W::Append { k, len: rng.gen_range(0..40) },
                1 => W::Incr { k },
                2 => W::Add { k, len: rng.gen_range(0..=plen) },
                _ => W::Set { k, len: rng.gen_range(0..=plen * 2), ttl: 0, cas: 0 },
            }
        })
        .collect();
    // schedule: free, jitter, or park one client at one policy point
    let points: [&'static str; 4] = ["policy.accounted", "policy.evict.pick", "policy.evict.done", "policy.set.before_store"];
    let mode = rng.gen_range(0..3);
    let (parks, jitter) = match mode {
        0 => (vec![], None),
        1 => (vec![], Some((500u32, 100u64))),
        _ => {
            let c = rng.gen_range(0..nthreads);
            (vec![Park { client: c, point: points[rng.gen_range(0..4)], nth: rng.gen_range(0..2), wait_for: (0..nthreads).filter(|x| *x != c).collect() }], None)
        }
    };
    let plan_desc = format!("{:?} jitter={:?}", parks, jitter);
    let ctl = Ctl::new(nthreads, parks, jitter, ctx.case_seed("evict-b", case));
    let barrier = Arc::new(Barrier::new(nthreads));
    let done = Arc::new(AtomicU64::new(0));
    let tids: Arc<Mutex<Vec<i32>>> = Arc::new(Mutex::new(vec![]));
    let results: Arc<Mutex<HashMap<usize, u16>>> = Arc::new(Mutex::new(HashMap::new()));
    let mut handles = vec![];
    for (ci, w) in ws.iter().enumerate() {
        let (ctl, barrier, done, tids, results) = (ctl.clone(), barrier.clone(), done.clone(), tids.clone(), results.clone());
        let memc = stack.memc.clone();
        let w = w.clone();
        handles.push(std::thread::spawn(move || {
            tids.lock().unwrap().push(gate::gettid());
            gate::bind(Some((ctl.clone(), ci)));
            let mut conn = Conn::new(memc, 1 << 20);
            barrier.wait();
            let r = one(&mut conn, w.frame(ci as u32).unwrap());
            results.lock().unwrap().insert(ci, r.map(|r| r.status).unwrap_or(0xffff));
            ctl.op_done(ci);
            ctl.finished(ci);
            gate::bind(None);
            done.fetch_add(1, Ordering::SeqCst);
        }));
    }
    let describe = || json!({"engine":"evict-batch","case":case,"limit":l,"prefill":pre,"stores":format!("{:?}", ws),"schedule":plan_desc,"replay_cmd":format!("/verif/check C14 replay --case {}", case)});
    let t0 = Instant::now();
    let patience = if cfg!(miri) { 900 } else { 8 };
    loop {
        if done.load(Ordering::SeqCst) as usize == nthreads {
            break;
        }
        if t0.elapsed() > Duration::from_secs(patience) {
            let t = tids.lock().unwrap().clone();
            let d2 = done.clone();
            match gate::classify_stall(&t, &move || d2.load(Ordering::SeqCst), 20) {
                Stall::Deadlock(m) => return Err((Viol::new(&["C14", "C16"], "deadlock", format!("concurrent stores under eviction did not return: {}", m)), describe())),
                Stall::Livelock(m) => return Err((Viol::new(&["C14", "C16"], "livelock", format!("eviction does not terminate: {}", m)), describe())),
                Stall::Slow => {
                    if t0.elapsed() > Duration::from_secs(patience + 120) {
                        *local.entry("batch:inconclusive_slow".into()).or_insert(0) += 1;
                        return Ok((0, 0));
                    }
                }
            }
        }
        std::thread::sleep(Duration::from_micros(if cfg!(miri) { 2000 } else { 100 }));
    }
    for h in handles {
        let _ = h.join();
    }
    *local.entry("batch:windows_hit".into()).or_insert(0) += ctl.windows_hit.load(Ordering::SeqCst);
    *local.entry("batch:windows_closed".into()).or_insert(0) += ctl.windows_closed.load(Ordering::SeqCst);
    *local.entry(format!("batch:mode{}", mode)).or_insert(0) += 1;
    let evictions = ctl.counts.lock().unwrap().get("policy.evict.done").copied().unwrap_or(0);
    // quiescent comparison: L + one record per store of the batch
    let res = results.lock().unwrap().clone();
    let mut allowance = last_len;
    for (ci, w) in ws.iter().enumerate() {
        if res.get(&ci) == Some(&st::OK) {
            let k = keyname(w.key().unwrap());
            let approx = match w {
                W::Set { len, .. } | W::Add { len, .. } => 24 + *len as u64,
                W::Incr { .. } => 24 + 4,
                _ => 0,
            };
            allowance += stored_len(&stack, &k).unwrap_or(0).max(approx);
        }
    }
    let (_, bytes) = stack.content_size();
    *local.entry("batch:size_comparisons".into()).or_insert(0) += 1;
    if bytes > l + allowance {
        return Err((
            Viol::new(&["C14"], "over-limit-concurrent", format!("after a batch of {} concurrent stores: {} bytes stored > limit {} + records of the batch (and of the last store before it) {}", nthreads, bytes, l, allowance)),
            describe(),
        ));
    }
    *local.entry("batch:evictions".into()).or_insert(0) += evictions;
    Ok((evictions, nthreads as u64 * 10 + mode as u64))
}

/// Concurrency first, the bound afterwards: a concurrent phase over keys that are live, expired-but-not-yet-
/// collected or absent (gets, deletes, stores, counter updates; one client parked at a hook point, jitter, or a
/// free-running volume phase), then - with nothing in progress - one connection stores small records until the
/// store is saturated. After each of these sequential stores the content must be within L + that record: a
/// release counted twice or an increment lost in the concurrent phase shows here as a surplus that never goes away.
/// Volume phase for windows of a few instructions inside the accounting (an increment landing between the load
/// and the store of a non-atomic decrement, say): they are only met by sheer rate, so the threads call the
/// MemcStore API directly (no wire encoding, no gate binding) as fast as they can. Deleters remove a prefilled
/// base of records while setters store fresh keys; nothing is overwritten, so the accounting of this workload
/// is exact and the limit - sized to hold exactly the base plus all sets - is not reached before the
/// sequential phase tops the store up. Then 20 more sequential stores must each leave at most L + one record.
fn volume_run(_ctx: &Ctx, case: u64, rng: &mut SmallRng, local: &mut BTreeMap<String, u64>) -> Result<(u64, u64), RunErr> {
    use memcrs::cache::cache::{CacheMetaData, Record};
    let vlen = 76usize;
    let rec = || Record::new(Bytes::from(vec![b'x'; vlen]), 0, 0, 0);
    let rec_size = rec().len() as u64;
    let deleters = rng.gen_range(1..=2usize);
    let setters = rng.gen_range(2..=4usize);
    let per_deleter = rng.gen_range(10_000..30_000usize);
    let per_setter = rng.gen_range(5_000..15_000usize);
    let l = (deleters * per_deleter + setters * per_setter) as u64 * rec_size;
    let stack = Stack::new(StoreKind::Random(l), 100);
    for d in 0..deleters {
        for i in 0..per_deleter {
            let _ = stack.memc.set(Bytes::from(format!("d{}-{}", d, i)), rec());
        }
    }
    let barrier = Arc::new(Barrier::new(deleters + setters));
    let mut hs = vec![];
    for d in 0..deleters {
        let (memc, barrier) = (stack.memc.clone(), barrier.clone());
        hs.push(std::thread::spawn(move || {
            barrier.wait();
            for i in 0..per_deleter {
                let _ = memc.delete(Bytes::from(format!("d{}-{}", d, i)), CacheMetaData::new(0, 0, 0));
            }
        }));
    }
    for t in 0..setters {
        let (memc, barrier) = (stack.memc.clone(), barrier.clone());
        hs.push(std::thread::spawn(move || {
            barrier.wait();
            for i in 0..per_setter {
                let _ = memc.set(Bytes::from(format!("s{}-{}", t, i)), Record::new(Bytes::from(vec![b'x'; 76]), 0, 0, 0));
            }
        }));
    }
    for h in hs {
        let _ = h.join();
    }
    let (n0, b0) = stack.content_size();
    let accounted0 = stack.policy.as_ref().map(|p| p.verif_memory_usage()).unwrap_or(0);
    *local.entry("volume:runs".into()).or_insert(0) += 1;
    *local.entry("volume:concurrent_deletes".into()).or_insert(0) += (deleters * per_deleter) as u64;
    *local.entry("volume:concurrent_sets".into()).or_insert(0) += (setters * per_setter) as u64;
    let missing = l.saturating_sub(b0) / rec_size;
    for i in 0..missing {
        let _ = stack.memc.set(Bytes::from(format!("f{}", i)), rec());
    }
    let mut evictions = 0u64;
    let mut prev = stack.content_size().0;
    for i in 0..20 {
        let _ = stack.memc.set(Bytes::from(format!("g{}", i)), rec());
        let (n, bytes) = stack.content_size();
        if n <= prev {
            evictions += 1;
        }
        prev = n;
        *local.entry("volume:size_comparisons".into()).or_insert(0) += 1;
        if bytes > l + rec_size {
            return Err((
                Viol::new(
                    &["C14"],
                    "over-limit-after-concurrency",
                    format!(
                        "{} deleters x {} deletes racing {} setters x {} stores of fresh keys (limit {} = room for all of them), then the store topped up sequentially: after {} more sequential store(s) {} bytes stored > limit + the record just written ({}): {} records too many; right after the concurrent phase {} records / {} bytes stored, {} accounted",
                        deleters, per_deleter, setters, per_setter, l, i + 1, bytes, rec_size, (bytes - l - rec_size) / rec_size, n0, b0, accounted0
                    ),
                ),
                json!({"engine":"evict-volume","case":case,"limit":l,"deleters":deleters,"setters":setters,"replay_cmd":format!("/verif/check C14 replay --case {}", case)}),
            ));
        }
    }
    Ok((evictions, 3000 + (deleters * 10 + setters) as u64))
}

fn mixed_run(ctx: &Ctx, case: u64, rng: &mut SmallRng, local: &mut BTreeMap<String, u64>) -> Result<(u64, u64), RunErr> {
    if !cfg!(miri) && rng.gen_ratio(1, 12) {
        return volume_run(ctx, case, rng, local);
    }
    // the limit is chosen so that the concurrent phase itself cannot reach it (what it accounts stays below L):
    // the surplus looked for is then not the one of the known empty-store reset (reset_run), and every
    // eviction happens in the sequential phase
    let volume = false;
    let l = [3000u64, 5000][rng.gen_range(0..2)];
    let stack = Stack::new(StoreKind::Random(l), 100);
    let mut conn = Conn::new(stack.memc.clone(), 1 << 20);
    let pre = rng.gen_range(2..8usize);
    for i in 0..pre {
        let ttl = if rng.gen_bool(0.6) { 2 } else { 0 };
        let _ = one(&mut conn, W::Set { k: 100 + i, len: rng.gen_range(60..200), ttl, cas: 0 }.frame(0).unwrap());
    }
    stack.timer.advance(3);
    let nthreads = if cfg!(miri) { 2 } else if volume { 6 } else { rng.gen_range(2..=4) };
    let per = if volume { rng.gen_range(100..300) } else { 1 };
    let pick = |rng: &mut SmallRng| -> W {
        let k = 100 + rng.gen_range(0..pre + 1);
        match rng.gen_range(0..10) {
            0..=3 => W::Get { k },
            4 | 5 => W::Delete { k, cas: 0 },
            6 => W::Set { k, len: rng.gen_range(60..160), ttl: if rng.gen_bool(0.3) { 1 } else { 0 }, cas: 0 },
            7 => W::Add { k, len: rng.gen_range(60..160) },
            8 => W::Incr { k: 90 },
            _ => W::Append { k, len: 30 },
        }
    };
    let progs: Vec<Vec<W>> = (0..nthreads).map(|_| (0..per).map(|_| pick(rng)).collect()).collect();
    let points: [&'static str; 6] = ["cache.get.read", "store.expire.decided", "policy.accounted", "policy.evict.pick", "policy.evict.done", "policy.set.before_store"];
    let mode = if volume { 3 } else { rng.gen_range(0..3) };
    let (parks, jitter) = match mode {
        0 | 3 => (vec![], None),
        1 => (vec![], Some((500u32, 100u64))),
        _ => {
            let c = rng.gen_range(0..nthreads);
            (vec![Park { client: c, point: points[rng.gen_range(0..points.len())], nth: 0, wait_for: (0..nthreads).filter(|x| *x != c).collect() }], None)
        }
    };
    let plan_desc = format!("{:?} jitter={:?} volume={}", parks, jitter, volume);
    let ctl = Ctl::new(nthreads, parks, jitter, ctx.case_seed("evict-m", case));
    let barrier = Arc::new(Barrier::new(nthreads));
    let done = Arc::new(AtomicU64::new(0));
    let tids: Arc<Mutex<Vec<i32>>> = Arc::new(Mutex::new(vec![]));
    let mut handles = vec![];
    for (ci, prog) in progs.iter().enumerate() {
        let (ctl, barrier, done, tids) = (ctl.clone(), barrier.clone(), done.clone(), tids.clone());
        let memc = stack.memc.clone();
        let prog = prog.clone();
        let timer = stack.timer.clone();
        handles.push(std::thread::spawn(move || {
            tids.lock().unwrap().push(gate::gettid());
            if !volume {
                gate::bind(Some((ctl.clone(), ci)));
            }
            let mut conn = Conn::new(memc, 1 << 20);
            barrier.wait();
            for (i, w) in prog.iter().enumerate() {
                let _ = one(&mut conn, w.frame(i as u32).unwrap());
                if !volume {
                    ctl.op_done(ci);
                } else if i % 64 == 0 {
                    ctl.tick.fetch_add(1, Ordering::SeqCst);
                }
                if ci == 0 && i % 97 == 96 {
                    timer.advance(1);
                }
            }
            ctl.finished(ci);
            gate::bind(None);
            done.fetch_add(1, Ordering::SeqCst);
        }));
    }
    let describe = |extra: String| json!({"engine":"evict-mixed","case":case,"limit":l,"prefill":pre,"programs":progs.iter().map(|p| format!("{:?}", p.iter().take(6).collect::<Vec<_>>())).collect::<Vec<_>>(),"schedule":plan_desc,"detail":extra,"replay_cmd":format!("/verif/check C14 replay --case {}", case)});
    let t0 = Instant::now();
    let patience = if cfg!(miri) { 900 } else { 10 };
    loop {
        if done.load(Ordering::SeqCst) as usize == nthreads {
            break;
        }
        if t0.elapsed() > Duration::from_secs(patience) {
            let t = tids.lock().unwrap().clone();
            let d2 = done.clone();
            let tick = ctl.clone();
            match gate::classify_stall(&t, &move || d2.load(Ordering::SeqCst) + tick.tick.load(Ordering::SeqCst), 20) {
                Stall::Deadlock(m) => return Err((Viol::new(&["C14", "C16"], "deadlock", format!("concurrent commands under eviction did not return: {}", m)), describe(String::new()))),
                Stall::Livelock(m) => return Err((Viol::new(&["C14", "C16"], "livelock", format!("eviction does not terminate: {}", m)), describe(String::new()))),
                Stall::Slow => {
                    if t0.elapsed() > Duration::from_secs(patience + 120) {
                        *local.entry("mixed:inconclusive_slow".into()).or_insert(0) += 1;
                        return Ok((0, 0));
                    }
                }
            }
        }
        std::thread::sleep(Duration::from_micros(if cfg!(miri) { 2000 } else { 100 }));
    }
    for h in handles {
        let _ = h.join();
    }
    *local.entry("mixed:windows_hit".into()).or_insert(0) += ctl.windows_hit.load(Ordering::SeqCst);
    *local.entry(format!("mixed:mode{}", mode)).or_insert(0) += 1;
    let (resets_in_phase, evictions_in_phase) = {
        let c = ctl.counts.lock().unwrap();
        (c.get("policy.evict.store_empty").copied().unwrap_or(0), c.get("policy.evict.done").copied().unwrap_or(0))
    };
    *local.entry("mixed:evictions_during_concurrent_phase".into()).or_insert(0) += evictions_in_phase;
    *local.entry("mixed:empty_store_resets_during_concurrent_phase".into()).or_insert(0) += resets_in_phase;
    // nothing is in progress any more: saturate with small records
    let rec = 4usize;
    let n_fill = if cfg!(miri) { 30 } else { (l as usize / 28) + 60 };
    let every = if l > 10_000 { 97 } else { 1 };
    let mut evictions = 0u64;
    let after_conc = {
        let (n, b) = stack.content_size();
        (n, b, stack.policy.as_ref().map(|p| p.verif_memory_usage()).unwrap_or(0))
    };
    let mut prev_n = after_conc.0;
    for j in 0..n_fill {
        let k = 1000 + j;
        let ok = one(&mut conn, W::Set { k, len: rec, ttl: 0, cas: 0 }.frame(j as u32).unwrap()).map(|r| r.status == st::OK).unwrap_or(false);
        if j % every != 0 && j + 1 != n_fill {
            continue;
        }
        let (n, bytes) = stack.content_size();
        if n <= prev_n {
            evictions += 1;
        }
        prev_n = n;
        let last = stored_len(&stack, &keyname(k)).unwrap_or(0);
        *local.entry("mixed:size_comparisons".into()).or_insert(0) += 1;
        if ok && bytes > l + last.max(24 + rec as u64) {
            return Err((
                Viol::new(
                    &["C14"],
                    if resets_in_phase > 0 { "over-limit:inflight-accounting-wiped-by-empty-store-reset" } else { "over-limit-after-concurrency" },
                    format!("after a concurrent phase and {} sequential stores of {}-byte values with nothing in progress: {} bytes stored > limit {} + the record just written ({})", j + 1, rec, bytes, l, last),
                ),
                describe(format!("records {} bytes {} accounted usage {} (right after the concurrent phase: {} bytes stored, {} accounted)", n, bytes, stack.policy.as_ref().map(|p| p.verif_memory_usage()).unwrap_or(0), after_conc.1, after_conc.2)),
            ));
        }
    }
    Ok((evictions, 1000 + nthreads as u64 * 10 + mode as u64))
}

/// The one history in which the bound is known not to hold (DESIGN.md section 6, D10): store A has added its
/// record to the usage counter and has not stored it yet; store B's eviction round empties the store, still
/// sees usage above the limit (A's bytes) and resets the counter by its own stale view, which wipes A's bytes;
/// A then stores its record, which is never accounted. From then on the store settles at L + A's record.
fn reset_run(ctx: &Ctx, case: u64, local: &mut BTreeMap<String, u64>) -> Result<(u64, u64), RunErr> {
    let l = 100u64;
    let stack = Stack::new(StoreKind::Random(l), 100);
    let mut conn = Conn::new(stack.memc.clone(), 1 << 20);
    let _ = one(&mut conn, W::Set { k: 100, len: 60, ttl: 0, cas: 0 }.frame(0).unwrap());
    let progs = [W::Set { k: 1, len: 110, ttl: 0, cas: 0 }, W::Set { k: 2, len: 50, ttl: 0, cas: 0 }];
    let parks = vec![Park { client: 0, point: "policy.accounted", nth: 0, wait_for: vec![1] }];
    let ctl = Ctl::new(2, parks, None, ctx.case_seed("evict-r", case));
    let mut handles = vec![];
    let barrier = Arc::new(Barrier::new(2));
    for (ci, w) in progs.iter().enumerate() {
        let (ctl, memc, w, barrier) = (ctl.clone(), stack.memc.clone(), w.clone(), barrier.clone());
        handles.push(std::thread::spawn(move || {
            gate::bind(Some((ctl.clone(), ci)));
            let mut conn = Conn::new(memc, 1 << 20);
            barrier.wait();
            if ci == 1 {
                // B starts once A is parked behind its increment (or has given up waiting)
                std::thread::sleep(Duration::from_millis(if cfg!(miri) { 200 } else { 20 }));
            }
            let _ = one(&mut conn, w.frame(ci as u32).unwrap());
            ctl.op_done(ci);
            ctl.finished(ci);
            gate::bind(None);
        }));
    }
    for h in handles {
        let _ = h.join();
    }
    let resets = ctl.counts.lock().unwrap().get("policy.evict.store_empty").copied().unwrap_or(0);
    *local.entry("reset:runs".into()).or_insert(0) += 1;
    *local.entry("reset:empty_store_resets_with_a_store_in_flight".into()).or_insert(0) += resets;
    let accounted = stack.policy.as_ref().map(|p| p.verif_memory_usage()).unwrap_or(0);
    let (_, stored) = stack.content_size();
    for j in 0..3 {
        let k = 1000 + j;
        let ok = one(&mut conn, W::Set { k, len: 4, ttl: 0, cas: 0 }.frame(j as u32).unwrap()).map(|r| r.status == st::OK).unwrap_or(false);
        let (n, bytes) = stack.content_size();
        let last = stored_len(&stack, &keyname(k)).unwrap_or(0);
        if ok && bytes > l + last.max(28) {
            return Err((
                Viol::new(
                    &["C14"],
                    if resets > 0 { "over-limit:inflight-accounting-wiped-by-empty-store-reset" } else { "over-limit-after-concurrency" },
                    format!(
                        "limit {}: set A (134-byte record) parked after its usage increment; set B's eviction round emptied the store and reset the counter ({} reset); both stored; then with nothing in progress, after {} sequential store(s) of 4-byte values: {} bytes in {} records > limit + the record just written ({}); accounted usage {} vs {} bytes stored right after the two sets",
                        l, resets, j + 1, bytes, n, last, accounted, stored
                    ),
                ),
                json!({"engine":"evict-reset","case":case,"limit":l,"accounted_after_sets":accounted,"stored_after_sets":stored,"replay_cmd":format!("/verif/check C14 replay --case {}", case)}),
            ));
        }
    }
    Ok((1, 2000))
}

// ---------------------------------------------------------------------------
// C15

pub const RULE_C15: &str = "a case is one long sequential workload over a small live set under a limit far above it; monitor (a) compares after every command the change of the accounted usage (cfg(memcrs_verif) accessor) with the change of the sum of Record::len() and attributes every drift to (command kind, outcome); monitor (b) runs the drift-free fragment (stores to absent keys, deletes, reads, failed adds/deletes) and a genuine-pressure phase followed by a small live set, without the hook, and demands that no live key disappears; non-trivial when every command kind of the run's alphabet was executed; distinct by (limit, alphabet, command histogram bucket)";

fn sig_for(w: &W, status: u16, prior: &str) -> String {
    let k = w.kind();
    // `prior` is what the store physically held before the command ("present" also covers a record that
    // has expired but was not collected yet): the classification is purely observational
    if w.is_store() && status == st::OK && prior != "absent" {
        return format!("acct-drift:{}:overwrite", k);
    }
    if w.is_store() && status == st::EXISTS && k != "add" {
        return format!("acct-drift:{}:cas-mismatch", k);
    }
    if prior == "present" && status == st::NOT_FOUND && k != "delete" {
        // the record was there and the command says 'not found': it had expired and was collected
        return "acct-drift:lazy-expiry-collected".to_string();
    }
    if k == "flush" {
        return "acct-drift:flush".to_string();
    }
    format!("acct-drift:{}:{:#x}:{}", k, status, prior)
}

pub fn run_c15(ctx: &Ctx) -> i32 {
    install_quiet_panic_hook();
    gate::install_hook();
    let mut ev0 = Evidence::new(ctx, "exploration", RULE_C15);
    ev0.assumptions = vec![
        "accounted usage read through RandomPolicy::verif_memory_usage (cfg(memcrs_verif)); stored bytes through remove_if(always false) + Record::len()".into(),
        "known accounting drift (D8b) is listed by signature in known_findings.json; anything else is a violation".into(),
    ];
    let shared = Mutex::new(ev0);
    let pressure_mismatches: Mutex<Vec<RunErr>> = Mutex::new(vec![]);
    let nruns = ctx.n(200, 900);
    let next = AtomicU64::new(0);
    let deadline = if ctx.budget_s > 0 { Some(Instant::now() + Duration::from_secs(ctx.budget_s)) } else { None };
    std::thread::scope(|s| {
        for _ in 0..ctx.workers {
            s.spawn(|| {
                let mut local: BTreeMap<String, u64> = BTreeMap::new();
                let mut fps: Vec<u64> = vec![];
                let mut evals = 0u64;
                loop {
                    let c = next.fetch_add(1, Ordering::Relaxed);
                    let over = match deadline {
                        Some(d) => Instant::now() > d && c >= nruns,
                        None => c >= nruns,
                    };
                    if over {
                        break;
                    }
                    if let Some(o) = ctx.only_case {
                        if c != o {
                            if c > o {
                                break;
                            }
                            continue;
                        }
                    }
                    let mut rng = SmallRng::seed_from_u64(ctx.case_seed("acct", c));
                    evals += 1;
                    let forced: Option<u64> = ctx.extra.get("only-kind").and_then(|s| s.parse().ok());
                    let kind_of_run = if let Some(k) = forced { k } else if ctx.prop == "C02" { 4 } else { c % 7 };
                    let viols = match kind_of_run {
                        0 => acct_run(ctx, c, &mut rng, &mut local, &mut fps),
                        1 => fragment_run(c, &mut rng, &mut local, &mut fps),
                        2 => pressure_run(c, &mut rng, &mut local, &mut fps),
                        3 => overwrite_run(c, &mut rng, &mut local, &mut fps),
                        4 => tight_run(c, &mut rng, &mut local, &mut fps),
                        5 => racing_run(ctx, c, &mut rng, &mut local, &mut fps),
                        _ => pressure_race_run(c, &mut rng, &mut local, &mut fps),
                    };
                    if !viols.is_empty() {
                        if kind_of_run == 6 {
                            // a single unexplained mismatch of a volume run is not a verdict (see DESIGN 10.3, O1):
                            // they are collected and judged together at the end of the run
                            pressure_mismatches.lock().unwrap().extend(viols);
                        } else {
                            let mut e = shared.lock().unwrap();
                            for (v, d) in viols {
                                e.violation(v, d);
                            }
                        }
                    }
                    if c < 3 {
                        let kind = ["accounting identity per command", "drift-free fragment (behavioural)", "pressure phase then small live set (behavioural)", "overwrite-heavy workload under a generous limit (behavioural form of the known drift)", "store filled exactly to its limit, then one conditional command carrying a stale CAS", "concurrent readers / deleters of one expired key under a forced schedule; accounting compared at quiescence", "stores of fresh keys under genuine pressure racing deletes of recent keys (direct API, volume); accounting compared at quiescence"][if ctx.prop == "C02" { 4 } else { (c % 7) as usize }];
                        shared.lock().unwrap().sample(json!({"case": c, "kind": kind}));
                    }
                }
                let mut e = shared.lock().unwrap();
                e.evaluations += evals;
                e.merge_counters(&local);
                for f in fps {
                    e.nontrivial.insert(f);
                }
            });
        }
    });
    {
        // verdict over the volume runs: a defect in the accounting shows in (nearly) every such run; one or two
        // mismatches among dozens or hundreds of runs are an observation nobody can act on yet
        let mm = pressure_mismatches.into_inner().unwrap();
        let mut e = shared.lock().unwrap();
        e.count("pressure_race:runs_with_an_accounting_mismatch", mm.len() as u64);
        if mm.len() >= 3 {
            for (v, d) in mm {
                e.violation(v, d);
            }
        } else {
            for (v, _) in mm {
                e.inconclusive.push(format!("uncorroborated (fewer than 3 volume runs of this invocation showed it): {}", v.msg));
            }
        }
    }
    shared.into_inner().unwrap().finish()
}

/// (a) accounting identity after every command
fn acct_run(ctx: &Ctx, case: u64, rng: &mut SmallRng, local: &mut BTreeMap<String, u64>, fps: &mut Vec<u64>) -> Vec<RunErr> {
    let _ = ctx;
    let l: u64 = [1 << 20, 1 << 22, 100_000][rng.gen_range(0..3)];
    let stack = Stack::new(StoreKind::Random(l), 100);
    let policy = stack.policy.clone().unwrap();
    let mut conn = Conn::new(stack.memc.clone(), 1 << 20);
    let nkeys = rng.gen_range(3..16);
    let n = 4000;
    let mut out: Vec<RunErr> = vec![];
    let mut seen_sigs: HashMap<String, u64> = HashMap::new();
    let mut trace: Vec<String> = vec![];
    let mut kinds: std::collections::HashSet<&'static str> = Default::default();
    #[cfg(memcrs_verif)]
    let usage = || policy.verif_memory_usage();
    #[cfg(not(memcrs_verif))]
    let usage = || {
        let _ = &policy;
        0u64
    };
    let mut drift_prev: i128 = usage() as i128 - stack.content_size().1 as i128;
    for i in 0..n {
        let w = gen_w(rng, nkeys, 120, true, true);
        if let W::Advance(d) = w {
            stack.timer.advance(d);
            continue;
        }
        let now = stack.timer.now();
        let prior = match w.key() {
            None => "-",
            Some(k) => {
                if stored_len(&stack, &keyname(k)).is_none() {
                    "absent"
                } else {
                    "present"
                }
            }
        };
        let resp = one(&mut conn, w.frame(i as u32).unwrap());
        let status = resp.as_ref().map(|r| r.status).unwrap_or(0xffff);
        kinds.insert(w.kind());
        trace.push(format!("#{} t={} {:?} [{}] -> {:#x}", i, now, w, prior, status));
        if trace.len() > 40 {
            trace.remove(0);
        }
        let (nrec, bytes) = stack.content_size();
        let acct = usage();
        let drift: i128 = acct as i128 - bytes as i128;
        *local.entry("acct:identity_comparisons".into()).or_insert(0) += 1;
        let describe = |trace: &Vec<String>| json!({"engine":"acct","case":case,"limit":l,"last_commands":trace,"accounted":acct,"stored_bytes":bytes,"records":nrec,"replay_cmd":format!("/verif/check C15 replay --case {}", case)});
        if drift < 0 {
            out.push((Viol::new(&["C15", "C14"], "under-accounting", format!("after {:?} [{}] -> {:#x}: accounted usage {} is below the {} bytes actually stored", w, prior, status, acct as i64, bytes)), describe(&trace)));
            break;
        }
        let d = drift - drift_prev;
        if d > 0 {
            let sig = sig_for(&w, status, prior);
            *seen_sigs.entry(sig.clone()).or_insert(0) += 1;
            *local.entry(format!("acct:drift:{}", sig)).or_insert(0) += 1;
            if seen_sigs[&sig] == 1 {
                out.push((Viol::new(&["C15"], &sig, format!("accounting drifts by +{} bytes at {:?} [{}] -> {:#x} (accounted {}, stored {})", d, w, prior, status, acct, bytes)), describe(&trace)));
            }
        } else if d < 0 {
            // the only legitimate correction: the store ran empty and the counter was re-based
            if !(drift == 0 && nrec <= 1) {
                out.push((Viol::new(&["C15"], "drift-negative-step", format!("accounted usage fell by {} more than the stored bytes at {:?} [{}] -> {:#x}", -d, w, prior, status)), describe(&trace)));
                break;
            }
            *local.entry("acct:rebase_at_empty_store".into()).or_insert(0) += 1;
        }
        // "the counter returns to its initial value whenever the store returns to empty" is implied
        // by the per-command identity: with d == 0 at every step the drift stays 0, also at empty
        drift_prev = drift;
    }
    if kinds.len() >= 9 {
        fps.push(fnv(format!("acct:{}:{}:{}", l, nkeys, case % 97).as_bytes()));
    }
    out
}

/// (b1) drift-free fragment: stores to absent keys, deletes, reads, failed adds and deletes.
/// No hook. No live key may disappear.
fn fragment_run(case: u64, rng: &mut SmallRng, local: &mut BTreeMap<String, u64>, fps: &mut Vec<u64>) -> Vec<RunErr> {
    let l: u64 = [64 << 20, 1 << 20, 200_000][rng.gen_range(0..3)];
    let stack = Stack::new(StoreKind::Random(l), 100);
    let mut conn = Conn::new(stack.memc.clone(), 1 << 20);
    let nkeys = rng.gen_range(4..24);
    let mut live: HashMap<usize, Vec<u8>> = HashMap::new();
    let mut trace: Vec<String> = vec![];
    let n = 6000;
    let mut scratch = 1000usize;
    for i in 0..n {
        let k = rng.gen_range(0..nkeys);
        let desc;
        match rng.gen_range(0..9) {
            0 | 1 => {
                // store to an absent key (set, add, incr-create, or a CAS store on an absent key)
                if !live.contains_key(&k) {
                    let len = rng.gen_range(0..200);
                    let w = match rng.gen_range(0..4) {
                        0 => W::Add { k, len },
                        1 => W::Set { k, len, ttl: 0, cas: rng.gen_range(1..99) },
                        _ => W::Set { k, len, ttl: 0, cas: 0 },
                    };
                    let r = one(&mut conn, w.frame(i).unwrap());
                    desc = format!("{:?} -> {:?}", w, r.as_ref().map(|r| r.status));
                    if r.map(|r| r.status == st::OK).unwrap_or(false) {
                        let v: Vec<u8> = (0..len).map(|i| b'a' + (i % 23) as u8).collect();
                        live.insert(k, v);
                    }
                } else {
                    let r = one(&mut conn, W::Add { k, len: 5 }.frame(i).unwrap());
                    desc = format!("failed add k{} -> {:?}", k, r.map(|r| r.status));
                }
            }
            2 => {
                let r = one(&mut conn, W::Delete { k, cas: 0 }.frame(i).unwrap());
                desc = format!("delete k{} -> {:?}", k, r.as_ref().map(|r| r.status));
                if r.map(|r| r.status == st::OK).unwrap_or(false) {
                    live.remove(&k);
                }
            }
            3 => {
                // failed delete (stale cas) on a live key, or delete of an absent key
                let r = one(&mut conn, W::Delete { k, cas: 0xfff_ffff }.frame(i).unwrap());
                desc = format!("delete stale-cas k{} -> {:?}", k, r.map(|r| r.status));
            }
            4 => {
                // scratch key cycle: CAS store to a fresh key, read, delete
                scratch += 1;
                let w = W::Set { k: scratch, len: rng.gen_range(0..64), ttl: 0, cas: if rng.gen_bool(0.5) { 77 } else { 0 } };
                let _ = one(&mut conn, w.frame(i).unwrap());
                let _ = one(&mut conn, W::Get { k: scratch }.frame(i).unwrap());
                let r = one(&mut conn, W::Delete { k: scratch, cas: 0 }.frame(i).unwrap());
                desc = format!("scratch cycle {:?} -> delete {:?}", w, r.map(|r| r.status));
            }
            _ => {
                let r = one(&mut conn, W::Get { k }.frame(i).unwrap());
                desc = format!("get k{} -> {:?}", k, r.as_ref().map(|r| r.status));
            }
        }
        trace.push(format!("#{} {}", i, desc));
        if trace.len() > 40 {
            trace.remove(0);
        }
        // every live key must still be there with its value
        if i % 7 == 0 || i + 1 == n {
            for (lk, lv) in &live {
                *local.entry("fragment:live_key_probes".into()).or_insert(0) += 1;
                let r = one(&mut conn, W::Get { k: *lk }.frame(0).unwrap());
                let ok = r.as_ref().map(|r| r.status == st::OK && &r.value == lv).unwrap_or(false);
                if !ok {
                    let (nrec, bytes) = stack.content_size();
                    return vec![(
                        Viol::new(&["C15"], "live-key-lost:drift-free-fragment", format!("live key k{} disappeared (status {:?}) with {} records / {} bytes stored under a limit of {}", lk, r.map(|r| r.status), nrec, bytes, l)),
                        json!({"engine":"acct-fragment","case":case,"limit":l,"last_commands":trace}),
                    )];
                }
            }
        }
    }
    fps.push(fnv(format!("fragment:{}:{}", l, nkeys).as_bytes()));
    vec![]
}

/// (d) several clients touch the same expired-but-uncollected record at once (forced schedule: one of
/// them is parked right after it has read the record, the others run to completion, then it resumes).
/// At quiescence the accounted usage must not be *below* the stored bytes (upward drift is the known
/// finding; a refund given twice is not), and a further store must not evict the live items.
fn racing_run(ctx: &Ctx, case: u64, rng: &mut SmallRng, local: &mut BTreeMap<String, u64>, fps: &mut Vec<u64>) -> Vec<RunErr> {
    let stack = Stack::new(StoreKind::Random(64 << 20), 100);
    let policy = stack.policy.clone().unwrap();
    let mut conn = Conn::new(stack.memc.clone(), 1 << 20);
    let nlive = 8usize;
    for k in 0..nlive {
        let _ = one(&mut conn, W::Set { k, len: 20, ttl: 0, cas: 0 }.frame(0).unwrap());
    }
    // the expiring record is larger than everything else together
    let _ = one(&mut conn, W::Set { k: 50, len: 2000, ttl: 5, cas: 0 }.frame(0).unwrap());
    stack.timer.advance(10);
    let nthreads = rng.gen_range(2..=4usize);
    let ops: Vec<W> = (0..nthreads)
        .map(|_| match rng.gen_range(0..4) {
            0 => W::Delete { k: 50, cas: 0 },
            1 => W::Append { k: 50, len: 3 },
            _ => W::Get { k: 50 },
        })
        .collect();
    let points: [&'static str; 4] = ["cache.get.read", "cache.get.read", "store.expire.decided", "timer.read"];
    let parked = rng.gen_range(0..nthreads);
    let mode = rng.gen_range(0..4);
    let mut ops = ops;
    if mode != 0 {
        // the parked client is a reader (or an append, which reads first): it passes the points above
        ops[parked] = if rng.gen_bool(0.7) { W::Get { k: 50 } } else { W::Append { k: 50, len: 3 } };
    }
    let parks = if mode == 0 {
        vec![]
    } else {
        vec![Park { client: parked, point: points[rng.gen_range(0..points.len())], nth: 0, wait_for: (0..nthreads).filter(|x| *x != parked).collect() }]
    };
    let ctl = Ctl::new(nthreads, parks.clone(), if mode == 0 { Some((500, 80)) } else { None }, ctx.case_seed("racing", case));
    let barrier = Arc::new(Barrier::new(nthreads));
    let mut hs = vec![];
    for (ci, w) in ops.iter().enumerate() {
        let (ctl, barrier, memc, w) = (ctl.clone(), barrier.clone(), stack.memc.clone(), w.clone());
        hs.push(std::thread::spawn(move || {
            gate::bind(Some((ctl.clone(), ci)));
            let mut conn = Conn::new(memc, 1 << 20);
            barrier.wait();
            let _ = one(&mut conn, w.frame(ci as u32).unwrap());
            ctl.op_done(ci);
            ctl.finished(ci);
            gate::bind(None);
        }));
    }
    for h in hs {
        let _ = h.join();
    }
    *local.entry("racing:runs".into()).or_insert(0) += 1;
    *local.entry("racing:windows_hit".into()).or_insert(0) += ctl.windows_hit.load(Ordering::SeqCst);
    #[cfg(memcrs_verif)]
    let acct = policy.verif_memory_usage();
    #[cfg(not(memcrs_verif))]
    let acct = {
        let _ = &policy;
        u64::MAX / 4
    };
    let (nrec, bytes) = stack.content_size();
    let desc = json!({"engine":"acct-racing","case":case,"commands":format!("{:?}", ops),"schedule":format!("{:?}", parks),"accounted":acct as i64,"stored_bytes":bytes,"records":nrec});
    if ctl.windows_hit.load(Ordering::SeqCst) > 0 || mode == 0 {
        fps.push(fnv(format!("racing:{:?}:{}", ops.iter().map(|o| o.kind()).collect::<Vec<_>>(), mode).as_bytes()));
    }
    *local.entry("racing:quiescent_comparisons".into()).or_insert(0) += 1;
    if acct > (1 << 62) || acct < bytes {
        return vec![(
            Viol::new(&["C15", "C14"], "under-accounting", format!("after {} clients touched one expired record concurrently the accounted usage is {} while {} bytes are stored", nthreads, acct as i64, bytes)),
            desc,
        )];
    }
    // behavioural: one more store, the live items must survive
    let _ = one(&mut conn, W::Set { k: 60, len: 10, ttl: 0, cas: 0 }.frame(0).unwrap());
    let mut lost = vec![];
    for k in 0..nlive {
        *local.entry("racing:live_key_probes".into()).or_insert(0) += 1;
        if one(&mut conn, W::Get { k }.frame(0).unwrap()).map(|r| r.status != st::OK).unwrap_or(true) {
            lost.push(k);
        }
    }
    if !lost.is_empty() {
        return vec![(Viol::new(&["C15"], "live-key-lost:after-concurrent-expiry", format!("live keys {:?} were evicted under a 64 MiB limit with {} bytes stored", lost, bytes)), desc)];
    }
    vec![]
}

/// (c) the store is filled with absent-key stores (exact accounting) to exactly its limit, so that no
/// eviction is justified yet; then ONE command carrying a stale CAS is issued against a live key. It must
/// be refused with 'key exists', and every item must still be there unchanged: memory pressure is no
/// excuse for dropping the CAS comparison or the item.
/// Genuine memory pressure and deletes at the same time, at volume: setters store fresh keys (every store evicts
/// once the store is full), deleters delete recently stored keys, so that now and then a delete removes exactly
/// the record an eviction round has just picked. Nothing is overwritten and nothing expires, so the accounting of
/// this workload is exact: at quiescence the accounted usage must equal the bytes stored. A refund booked twice
/// (or not at all) shows as a difference; an *under*-accounted counter is what later lets the store outgrow its
/// limit or, after a wrap-around, evict live items without pressure.
fn pressure_race_run(case: u64, rng: &mut SmallRng, local: &mut BTreeMap<String, u64>, fps: &mut Vec<u64>) -> Vec<RunErr> {
    use memcrs::cache::cache::{CacheMetaData, Record};
    if cfg!(miri) {
        return vec![];
    }
    let rec_size = Record::new(Bytes::from(vec![b'x'; 76]), 0, 0, 0).len() as u64;
    let capacity = rng.gen_range(150..400u64);
    let l = capacity * rec_size;
    let stack = Stack::new(StoreKind::Random(l), 100);
    let setters = rng.gen_range(2..=3usize);
    let deleters = rng.gen_range(2..=4usize);
    let per_setter = rng.gen_range(6_000..14_000usize);
    let latest: Arc<Vec<AtomicU64>> = Arc::new((0..setters).map(|_| AtomicU64::new(0)).collect());
    let done = Arc::new(AtomicU64::new(0));
    let barrier = Arc::new(Barrier::new(setters + deleters));
    let mut hs = vec![];
    for t in 0..setters {
        let (memc, latest, done, barrier) = (stack.memc.clone(), latest.clone(), done.clone(), barrier.clone());
        hs.push(std::thread::spawn(move || {
            barrier.wait();
            for i in 0..per_setter {
                let _ = memc.set(Bytes::from(format!("s{}-{}", t, i)), Record::new(Bytes::from(vec![b'x'; 76]), 0, 0, 0));
                latest[t].store(i as u64, Ordering::Release);
            }
            done.fetch_add(1, Ordering::SeqCst);
        }));
    }
    let deletes_ok = Arc::new(AtomicU64::new(0));
    for d in 0..deleters {
        let (memc, latest, done, barrier, deletes_ok) = (stack.memc.clone(), latest.clone(), done.clone(), barrier.clone(), deletes_ok.clone());
        let seed = case * 31 + d as u64;
        hs.push(std::thread::spawn(move || {
            let mut rng = SmallRng::seed_from_u64(seed);
            barrier.wait();
            let mut ok = 0u64;
            while (done.load(Ordering::SeqCst) as usize) < latest.len() {
                let t = rng.gen_range(0..latest.len());
                let newest = latest[t].load(Ordering::Acquire);
                let back = rng.gen_range(0..capacity);
                if newest >= back {
                    if memc.delete(Bytes::from(format!("s{}-{}", t, newest - back)), CacheMetaData::new(0, 0, 0)).is_ok() {
                        ok += 1;
                    }
                }
            }
            deletes_ok.fetch_add(ok, Ordering::Relaxed);
        }));
    }
    for h in hs {
        let _ = h.join();
    }
    let (n, bytes) = stack.content_size();
    let accounted = stack.policy.as_ref().map(|p| p.verif_memory_usage()).unwrap_or(0);
    *local.entry("pressure_race:runs".into()).or_insert(0) += 1;
    *local.entry("pressure_race:stores_under_pressure".into()).or_insert(0) += (setters * per_setter) as u64;
    *local.entry("pressure_race:successful_concurrent_deletes".into()).or_insert(0) += deletes_ok.load(Ordering::Relaxed);
    fps.push(fnv(format!("pressure-race:{}:{}:{}", setters, deleters, capacity / 50).as_bytes()));
    let mut out = vec![];
    if accounted != bytes {
        let under = accounted < bytes || accounted > (1u64 << 62);
        out.push((
            Viol::new(
                &["C15", "C14"],
                if under { "under-accounting" } else { "acct-drift:pressure-race" },
                format!(
                    "{} setters x {} stores of fresh keys under a limit of {} records racing {} deleters ({} successful deletes), nothing overwritten or expired: at quiescence {} bytes are stored in {} records but {} are accounted",
                    setters, per_setter, capacity, deleters, deletes_ok.load(Ordering::Relaxed), bytes, n, accounted
                ),
            ),
            json!({"engine":"acct-pressure-race","case":case,"limit":l,"stored":bytes,"accounted":accounted,"replay_cmd":format!("/verif/check C15 replay --case {}", case)}),
        ));
    }
    out
}

fn tight_run(case: u64, rng: &mut SmallRng, local: &mut BTreeMap<String, u64>, fps: &mut Vec<u64>) -> Vec<RunErr> {
    let n = rng.gen_range(4..24usize);
    let lens: Vec<usize> = (0..n).map(|i| if i == 0 { 2 } else { rng.gen_range(0..200) }).collect();
    let total: u64 = lens.iter().map(|l| 24 + *l as u64).sum();
    let stack = Stack::new(StoreKind::Random(total), 100);
    let mut conn = Conn::new(stack.memc.clone(), 1 << 20);
    let mut cas: Vec<u64> = vec![];
    let mut vals: Vec<Vec<u8>> = vec![];
    for (k, l) in lens.iter().enumerate() {
        // key 0 holds a counter so that incr/decr take the arithmetic path
        let f = if k == 0 { wire::store(op::SET, &keyname(0), b"41", 5, 0, 1, 0) } else { W::Set { k, len: *l, ttl: 0, cas: 0 }.frame(1).unwrap() };
        let r = one(&mut conn, f);
        cas.push(r.as_ref().map(|r| r.cas).unwrap_or(0));
        vals.push(if k == 0 { b"41".to_vec() } else { (0..*l).map(|i| b'a' + (i % 23) as u8).collect() });
    }
    let (nrec, bytes) = stack.content_size();
    if nrec as usize != n || bytes != total {
        return vec![(
            Viol::new(&["C14", "C15"], "evicted-while-filling-to-the-limit", format!("{} records / {} bytes stored after filling {} records of {} bytes under a limit of exactly {}", nrec, bytes, n, total, total)),
            json!({"engine":"acct-tight","case":case}),
        )];
    }
    let k = rng.gen_range(0..n);
    let stale = cas[k].wrapping_add(rng.gen_range(1..9));
    let kind = rng.gen_range(0..7);
    let key = keyname(k);
    let (name, f) = match kind {
        0 => ("set", wire::store(op::SET, &key, b"overwrite", 1, 0, 9, stale)),
        1 => ("replace", wire::store(op::REPLACE, &key, b"overwrite", 1, 0, 9, stale)),
        2 => ("append", wire::concat(op::APPEND, &key, b"zz", 9, stale)),
        3 => ("prepend", wire::concat(op::PREPEND, &key, b"zz", 9, stale)),
        4 => ("incr", wire::counter(op::INCR, &keyname(0), 1, 0, 0, 9, cas[0].wrapping_add(3))),
        5 => ("decr", wire::counter(op::DECR, &keyname(0), 1, 0, 0, 9, cas[0].wrapping_add(3))),
        _ => ("delete", wire::delete(op::DELETE, &key, 9, stale)),
    };
    let r = one(&mut conn, f);
    *local.entry(format!("tight:stale-cas-{}", name)).or_insert(0) += 1;
    let desc = json!({"engine":"acct-tight","case":case,"limit":total,"records":n,"command":name,"key":k,"stale_cas":stale,"current_cas":cas[k]});
    if r.as_ref().map(|r| r.status != st::EXISTS).unwrap_or(true) {
        return vec![(
            Viol::new(&["C02", "C15"], "stale-cas-accepted-under-pressure", format!("{} carrying a stale CAS on a live key of a store filled exactly to its limit answered {:?} instead of 'key exists'", name, r.map(|r| r.status))),
            desc,
        )];
    }
    for i in 0..n {
        *local.entry("tight:live_key_probes".into()).or_insert(0) += 1;
        let g = one(&mut conn, wire::get(op::GET, &keyname(i), 0));
        let ok = g.as_ref().map(|g| g.status == st::OK && g.value == vals[i] && g.cas == cas[i]).unwrap_or(false);
        if !ok {
            return vec![(
                Viol::new(&["C02", "C15", "C06"], "refused-command-changed-store", format!("after a refused {} (stale CAS) key k{} reads {:?}", name, i, g.map(|g| g.brief()))),
                desc,
            )];
        }
    }
    fps.push(fnv(format!("tight:{}:{}", name, n).as_bytes()));
    vec![]
}

/// (b0) the behavioural face of the known accounting drift (D8b), without the hook: a small live set
/// under a generous limit, one key overwritten / appended / incremented over and over. No stored
/// byte count ever comes near the limit, yet live keys disappear. Reported under the signature
/// `live-key-lost:overwrite-workload`, which is a listed known finding; the drift-free fragment and the
/// pressure run above stay exact.
fn overwrite_run(case: u64, rng: &mut SmallRng, local: &mut BTreeMap<String, u64>, fps: &mut Vec<u64>) -> Vec<RunErr> {
    let l: u64 = [1000, 4000, 20_000][rng.gen_range(0..3)];
    let stack = Stack::new(StoreKind::Random(l), 100);
    let mut conn = Conn::new(stack.memc.clone(), 1 << 20);
    let nlive = 6usize;
    for k in 0..nlive {
        let _ = one(&mut conn, W::Set { k, len: 10, ttl: 0, cas: 0 }.frame(0).unwrap());
    }
    let rounds = (l as usize / 20) * 3;
    let mut max_bytes = 0u64;
    for i in 0..rounds {
        let w = match i % 3 {
            0 => W::Set { k: 100, len: 10, ttl: 0, cas: 0 },
            1 => W::Incr { k: 101 },
            _ => W::Replace { k: 100, len: 12 },
        };
        let _ = one(&mut conn, w.frame(i as u32).unwrap());
        max_bytes = max_bytes.max(stack.content_size().1);
    }
    let mut lost = vec![];
    for k in 0..nlive {
        *local.entry("overwrite:live_key_probes".into()).or_insert(0) += 1;
        let r = one(&mut conn, W::Get { k }.frame(0).unwrap());
        if r.map(|r| r.status != st::OK).unwrap_or(true) {
            lost.push(k);
        }
    }
    fps.push(fnv(format!("overwrite:{}:{}", l, rounds % 7).as_bytes()));
    if !lost.is_empty() && max_bytes < l {
        return vec![(
            Viol::new(&["C15"], "live-key-lost:overwrite-workload", format!("{} overwrites/increments of two keys under a limit of {} bytes: at most {} bytes were ever stored, yet live keys {:?} were evicted", rounds, l, max_bytes, lost)),
            json!({"engine":"acct-overwrite","case":case,"limit":l,"rounds":rounds,"max_stored_bytes":max_bytes}),
        )];
    }
    vec![]
}

/// (b2) a genuine pressure phase (many one-time sets beyond the limit), then the store is emptied by
/// deletes and a live set of a fifth of the limit is written with absent-key stores only: none may be lost,
/// and the content right after the pressure phase must not be far below the limit.
fn pressure_run(case: u64, rng: &mut SmallRng, local: &mut BTreeMap<String, u64>, fps: &mut Vec<u64>) -> Vec<RunErr> {
    let l: u64 = [64_000, 256_000][rng.gen_range(0..2)];
    let stack = Stack::new(StoreKind::Random(l), 100);
    let mut conn = Conn::new(stack.memc.clone(), 1 << 20);
    let rec = [100usize, 1000][rng.gen_range(0..2)];
    let n = (l as usize / (rec + 24)) * rng.gen_range(4..12);
    for i in 0..n {
        let _ = one(&mut conn, W::Set { k: i, len: rec, ttl: 0, cas: 0 }.frame(i as u32).unwrap());
    }
    let (nrec, bytes) = stack.content_size();
    *local.entry("pressure:phases".into()).or_insert(0) += 1;
    let desc = json!({"engine":"acct-pressure","case":case,"limit":l,"record":rec,"one_time_sets":n,"records_after":nrec,"bytes_after":bytes});
    // under exact accounting the store stays within one record of the limit: evicting far below it means
    // items are evicted although the stored records do not exceed the limit
    if (bytes as f64) < 0.5 * (l as f64) {
        return vec![(
            Viol::new(&["C15"], "evicts-below-limit:absent-key-stores", format!("after {} one-time sets of {}-byte records only {} bytes are stored under a limit of {} (eviction without memory pressure)", n, rec + 24, bytes, l)),
            desc,
        )];
    }
    // empty the store with deletes, then a small live set
    for i in 0..n {
        let _ = one(&mut conn, W::Delete { k: i, cas: 0 }.frame(0).unwrap());
    }
    let m = (l as usize / 5) / (rec + 24);
    for i in 0..m {
        let _ = one(&mut conn, W::Set { k: 100_000 + i, len: rec, ttl: 0, cas: 0 }.frame(0).unwrap());
    }
    let mut lost = 0;
    for i in 0..m {
        *local.entry("pressure:live_key_probes".into()).or_insert(0) += 1;
        let r = one(&mut conn, W::Get { k: 100_000 + i }.frame(0).unwrap());
        if r.map(|r| r.status != st::OK).unwrap_or(true) {
            lost += 1;
        }
    }
    if lost > 0 {
        return vec![(
            Viol::new(&["C15"], "live-key-lost:after-pressure", format!("{} of {} live items (a fifth of the limit {}) were lost after the store had been emptied by deletes", lost, m, l)),
            desc,
        )];
    }
    fps.push(fnv(format!("pressure:{}:{}:{}", l, rec, n % 13).as_bytes()));
    vec![]
}
