//! L3 engines: `slots` (C17 connection limit / slot conservation) and
//! `fault` (C18 fault containment, every cut offset x fault kind).

use crate::ev::{fnv, Ctx, Evidence, Viol};
use crate::kv::{self, install_quiet_panic_hook};
use crate::l3::{ask, parse_prefix};
use crate::sock::{conn_log, Cli, End, Server, SrvCfg};
use crate::wire::{self, op, st};
use rand::rngs::SmallRng;
use rand::{Rng, SeedableRng};
use serde_json::json;
use std::collections::BTreeMap;
use std::sync::atomic::{AtomicU64, Ordering};
use std::sync::Mutex;
use std::time::{Duration, Instant};

// ---------------------------------------------------------------------------
// C17

#[derive(Clone, Copy, Debug, PartialEq)]
pub enum Ending {
    ClientClose,
    Quit,
    QuitQ,
    MidHeader,
    MidBody,
    BadMagic,
    OversizedThenClose,
    OversizedPartial,
    IdleTimeout,
    Rst,
    /// header + part of a within-limit body, then silence: the idle timeout must end it
    MidBodySilent,
    /// header + part of an oversized body, then silence
    OversizedPartialSilent,
    /// header + part of an oversized body, a pause, more of the body (read by the discard loop itself), then close
    OversizedTrickleClose,
    /// a well-framed request the decoder has to refuse (too few extras for incr, key longer than 250, missing
    /// key, body shorter than key + extras): the server ends the connection
    Malformed,
}

const ENDINGS: [Ending; 14] = [
    Ending::ClientClose,
    Ending::Quit,
    Ending::QuitQ,
    Ending::MidHeader,
    Ending::MidBody,
    Ending::BadMagic,
    Ending::OversizedThenClose,
    Ending::OversizedPartial,
    Ending::IdleTimeout,
    Ending::Rst,
    Ending::MidBodySilent,
    Ending::OversizedPartialSilent,
    Ending::OversizedTrickleClose,
    Ending::Malformed,
];

pub const RULE_C17: &str = "a case is one scenario on a fresh server with connection limit 1..4: a sequence of 3*limit..6*limit connection lifecycles, each ended in one of fourteen ways (a refused malformed request, client close, quit, quitq, disconnect mid-header / mid-body, invalid magic, oversized item then close, oversized item cut in its body - in one segment or trickled -, idle timeout while idle / inside a body / inside an oversized body, RST; waiting connections may also close or reset before they are served); after every step the monitor demands: no more than `limit` connections have a noop answered while open, free permits (cfg(memcrs_verif) accessor) == limit - open served connections at quiescence (server-side endings are checked while the client socket is still open), a waiting connection is picked up after a slot frees, and at the end `limit` fresh connections are served and one more is not; non-trivial when the limit was reached at least once; distinct by the sequence of ending kinds";

struct Slot {
    cli: Cli,
}

fn noop_answered(c: &mut Cli, opaque: u32, wait: Duration) -> bool {
    use std::io::Write;
    let before = crate::sock::count_frames(&c.rx);
    if c.s.write_all(&wire::simple(op::NOOP, opaque).encode()).is_err() {
        return false;
    }
    c.sent += 24;
    let t0 = Instant::now();
    let mut want = before + 1;
    loop {
        c.read_frames(want, Duration::from_millis(20));
        let all = parse_prefix(&c.rx);
        if all.iter().skip(before).any(|r| r.opaque == opaque && r.status == st::OK) {
            return true;
        }
        // answers to earlier probes of this connection may come first
        want = all.len() + 1;
        if c.end != End::Open || t0.elapsed() > wait {
            return false;
        }
    }
}

/// waits until the free permits equal `want` and stay there (a release/acquire pair of the accept
/// loop passes through `want` transiently, so one matching sample is not quiescence)
fn wait_permits(srv: &Server, want: usize, timeout: Duration) -> usize {
    let t0 = Instant::now();
    loop {
        let p = srv.permits();
        if p == want {
            let mut stable = true;
            for _ in 0..4 {
                std::thread::sleep(Duration::from_millis(10));
                if srv.permits() != want {
                    stable = false;
                    break;
                }
            }
            if stable {
                return p;
            }
        }
        if t0.elapsed() > timeout {
            return srv.permits();
        }
        std::thread::sleep(Duration::from_millis(2));
    }
}

fn scenario_c17(ctx: &Ctx, case: u64, local: &mut BTreeMap<String, u64>) -> (Vec<(Viol, serde_json::Value)>, Vec<Ending>, bool) {
    let mut rng = SmallRng::seed_from_u64(ctx.case_seed("slots", case));
    let limit: usize = if ctx.thorough() { rng.gen_range(1..=4) } else { rng.gen_range(1..=3) };
    let item_limit = 1024u32;
    let flavour = if rng.gen_bool(0.3) { Some(2) } else { None };
    let mut trace: Vec<String> = vec![];
    let mut kinds: Vec<Ending> = vec![];
    let mut viols = vec![];
    let srv = match Server::start(SrvCfg { conn_limit: limit as u32, item_limit, idle_s: 2, workers: flavour, ..Default::default() }) {
        Ok(s) => s,
        Err(_) => return (viols, kinds, false),
    };
    let describe = |trace: &Vec<String>, srv: &Server| json!({"engine":"slots","case":case,"limit":limit,"runtime":format!("{:?}",flavour),"steps":trace,"free_permits_now":srv.permits(),"replay_cmd":format!("/verif/check C17 replay --case {}", case)});
    let nlife = rng.gen_range(3 * limit..=6 * limit);
    let mut served: Vec<Slot> = vec![];
    let mut waiter: Option<Cli> = None;
    let mut reached_limit = false;
    let mut opq = 1u32;
    macro_rules! fail {
        ($tags:expr, $sig:expr, $msg:expr) => {{
            viols.push((Viol::new($tags, $sig, $msg), describe(&trace, &srv)));
            return (viols, kinds, reached_limit);
        }};
    }
    let mut endings_done = 0usize;
    for step in 0..nlife * 5 {
        if endings_done >= nlife {
            break;
        }
        // keep the served connections alive (idle timeout 2 s)
        for s in served.iter_mut() {
            opq += 1;
            if !noop_answered(&mut s.cli, opq, Duration::from_secs(3)) {
                fail!(&["C17", "C18"], "served-connection-lost", format!("step {}: a served, healthy connection stopped answering", step));
            }
        }
        // 1. a new connection arrives (more often than one leaves, so that the limit is reached)
        if waiter.is_none() && rng.gen_bool(0.8) {
            if let Ok(mut c) = Cli::connect(srv.port) {
                opq += 1;
                if served.len() < limit {
                    let ok = noop_answered(&mut c, opq, Duration::from_secs(10));
                    if !ok {
                        // bounded progress: permits say whether a slot was really free
                        let p = srv.permits();
                        if p + served.len() != limit {
                            fail!(&["C17"], "slot-leak", format!("step {}: {} connections are served, limit {}, but only {} permits are free and a new connection is not served", step, served.len(), limit, p));
                        }
                        *local.entry("inconclusive:slow-pickup".into()).or_insert(0) += 1;
                        if std::env::var("MCV_DEBUG").is_ok() {
                            eprintln!("SLOW PICKUP case {} limit {} permits {} served {}: {:#?}", case, limit, p, served.len(), trace);
                        }
                        return (viols, kinds, reached_limit);
                    }
                    trace.push(format!("step {}: new connection served ({} open)", step, served.len() + 1));
                    served.push(Slot { cli: c });
                } else {
                    reached_limit = true;
                    let answered = noop_answered(&mut c, opq, Duration::from_millis(300));
                    *local.entry("over_limit_probes".into()).or_insert(0) += 1;
                    if answered {
                        fail!(&["C17"], "over-limit-served", format!("step {}: connection #{} was served while {} are open (limit {})", step, served.len() + 1, served.len(), limit));
                    }
                    trace.push(format!("step {}: extra connection waits unserved", step));
                    waiter = Some(c);
                }
            }
        }
        // 2. a waiting connection may give up before it is served
        if waiter.is_some() && rng.gen_bool(0.25) {
            let w = waiter.take().unwrap();
            if rng.gen_bool(0.5) {
                trace.push(format!("step {}: waiting connection resets (RST) before being served", step));
                *local.entry("waiters_reset_before_served".into()).or_insert(0) += 1;
                w.reset();
            } else {
                trace.push(format!("step {}: waiting connection closes before being served", step));
                drop(w);
            }
            std::thread::sleep(Duration::from_millis(20));
        }
        // 3. one served connection ends
        let p_end = if served.len() >= limit { 0.7 } else { 0.35 };
        if served.is_empty() || !rng.gen_bool(p_end) {
            continue;
        }
        endings_done += 1;
        let idx = rng.gen_range(0..served.len());
        let kind = ENDINGS[rng.gen_range(0..ENDINGS.len())];
        kinds.push(kind);
        *local.entry(format!("ending:{:?}", kind)).or_insert(0) += 1;
        let Slot { cli: mut c } = served.remove(idx);
        let key = c.port;
        trace.push(format!("step {}: served connection ends by {:?}", step, kind));
        let mut keep: Option<Cli> = None; // client socket kept open while the slot is checked
        use std::io::Write;
        match kind {
            Ending::ClientClose => drop(c),
            Ending::Quit => {
                let _ = c.s.write_all(&wire::simple(op::QUIT, 7).encode());
                c.read_to_end(Duration::from_secs(3));
                if c.end != End::Eof {
                    fail!(&["C12", "C17"], "no-eof-after-quit", format!("step {}: no EOF after quit ({:?})", step, c.end));
                }
                keep = Some(c);
            }
            Ending::QuitQ => {
                let _ = c.s.write_all(&wire::simple(op::QUITQ, 7).encode());
                c.read_to_end(Duration::from_secs(3));
                keep = Some(c);
            }
            Ending::MidHeader => {
                let _ = c.s.write_all(&wire::store(op::SET, b"k", b"v", 0, 0, 1, 0).encode()[..10]);
                std::thread::sleep(Duration::from_millis(5));
                drop(c);
            }
            Ending::MidBody => {
                let f = wire::store(op::SET, b"k", &[b'v'; 200], 0, 0, 1, 0).encode();
                let _ = c.s.write_all(&f[..24 + 50]);
                std::thread::sleep(Duration::from_millis(5));
                drop(c);
            }
            Ending::BadMagic => {
                let mut f = wire::get(op::GET, b"k", 1);
                f.magic = 0x55;
                let _ = c.s.write_all(&f.encode());
                c.read_to_end(Duration::from_secs(3));
                keep = Some(c);
            }
            Ending::Malformed => {
                let mut f = match opq % 4 {
                    0 => {
                        // incr with 16 bytes of extras instead of 20
                        let mut f = wire::counter(op::INCR, b"k", 1, 1, 0, 1, 0);
                        f.extras_len = 16;
                        f.body.truncate(16 + 1);
                        f.body_len = 17;
                        f
                    }
                    1 => wire::get(op::GET, &vec![b'k'; 251], 1),
                    2 => wire::get(op::GET, b"", 1),
                    _ => {
                        let mut f = wire::store(op::SET, b"key", b"v", 0, 0, 1, 0);
                        f.body_len = 5;
                        f.body.truncate(5);
                        f
                    }
                };
                f.opaque = 0xbad;
                let _ = c.s.write_all(&f.encode());
                c.read_to_end(Duration::from_secs(3));
                keep = Some(c);
            }
            Ending::OversizedThenClose => {
                let f = wire::store(op::SET, b"big", &vec![b'x'; 3000], 0, 0, 0x77, 0);
                let _ = c.s.write_all(&f.encode());
                c.read_frames(crate::sock::count_frames(&c.rx) + 1, Duration::from_secs(3));
                drop(c);
            }
            Ending::OversizedPartial => {
                let f = wire::store(op::SET, b"big", &vec![b'x'; 5000], 0, 0, 0x77, 0).encode();
                let _ = c.s.write_all(&f[..24 + 2000]);
                std::thread::sleep(Duration::from_millis(10));
                drop(c);
            }
            Ending::OversizedTrickleClose => {
                let f = wire::store(op::SET, b"big", &vec![b'x'; 5000], 0, 0, 0x77, 0).encode();
                let _ = c.s.write_all(&f[..24 + 1500]);
                std::thread::sleep(Duration::from_millis(15));
                let _ = c.s.write_all(&f[24 + 1500..24 + 2500]);
                std::thread::sleep(Duration::from_millis(15));
                let _ = c.s.write_all(&f[24 + 2500..24 + 2600]);
                std::thread::sleep(Duration::from_millis(10));
                drop(c);
            }
            Ending::IdleTimeout | Ending::MidBodySilent | Ending::OversizedPartialSilent => {
                if kind == Ending::MidBodySilent {
                    let f = wire::store(op::SET, b"k", &[b'v'; 200], 0, 0, 1, 0).encode();
                    let _ = c.s.write_all(&f[..24 + 50]);
                } else if kind == Ending::OversizedPartialSilent {
                    let f = wire::store(op::SET, b"big", &vec![b'x'; 5000], 0, 0, 0x77, 0).encode();
                    let _ = c.s.write_all(&f[..24 + 2000]);
                }
                // stay silent; keep the others alive meanwhile
                let t0 = Instant::now();
                while t0.elapsed() < Duration::from_millis(3200) && !conn_log().get(key).exited {
                    for s in served.iter_mut() {
                        opq += 1;
                        let _ = noop_answered(&mut s.cli, opq, Duration::from_secs(2));
                    }
                    std::thread::sleep(Duration::from_millis(300));
                }
                keep = Some(c);
            }
            Ending::Rst => c.reset(),
        }
        // the server must be done with it (hook event), with the client socket of server-side endings still open
        let exited = conn_log().wait(key, Duration::from_secs(6), |o| o.exited);
        if !exited {
            let p = srv.permits();
            fail!(&["C17"], "slot-not-returned", format!("step {}: the server did not finish a connection ended by {:?} within 6 s (client socket of server-side endings kept open); free permits {}, open served {}", step, kind, p, served.len()));
        }
        // 4. a waiting connection must be picked up now
        if let Some(mut w) = waiter.take() {
            opq += 1;
            if noop_answered(&mut w, opq, Duration::from_secs(10)) {
                trace.push(format!("step {}: the waiting connection was picked up", step));
                *local.entry("waiters_picked_up".into()).or_insert(0) += 1;
                served.push(Slot { cli: w });
            } else {
                let p = srv.permits();
                if p + served.len() < limit || p == 0 {
                    fail!(&["C17"], "slot-leak", format!("step {}: after {:?} the waiting connection is not served: free permits {}, open served {}, limit {}", step, kind, p, served.len(), limit));
                }
                *local.entry("inconclusive:slow-pickup".into()).or_insert(0) += 1;
                if std::env::var("MCV_DEBUG").is_ok() {
                    eprintln!("SLOW PICKUP(waiter) case {} limit {} permits {} served {} waiter_end {:?} waiter_obs {:?}: {:#?}", case, limit, p, served.len(), w.end, conn_log().get(w.port), trace);
                }
                return (viols, kinds, reached_limit);
            }
        }
        // 5. exact slot conservation at quiescence
        let want = limit - served.len();
        let p = wait_permits(&srv, want, Duration::from_secs(3));
        *local.entry("permit_checks".into()).or_insert(0) += 1;
        if p != want {
            let sig = if p < want { "slot-leak" } else { "slot-double-release" };
            fail!(&["C17"], sig, format!("step {}: after {:?}: {} free permits, expected limit {} - {} open served connections = {}", step, kind, p, limit, served.len(), want));
        }
        drop(keep);
    }
    // final: everything ends, then `limit` fresh connections are served and one more is not
    drop(waiter.take());
    let keys: Vec<u32> = served.iter().map(|s| s.cli.port).collect();
    served.clear();
    for k in keys {
        conn_log().wait(k, Duration::from_secs(5), |o| o.exited);
    }
    let p = wait_permits(&srv, limit, Duration::from_secs(4));
    if p != limit {
        let sig = if p < limit { "slot-leak" } else { "slot-double-release" };
        fail!(&["C17"], sig, format!("after the whole history all connections are gone but {} permits are free (limit {})", p, limit));
    }
    let mut fresh = vec![];
    for i in 0..limit {
        match Cli::connect(srv.port) {
            Ok(mut c) => {
                if !noop_answered(&mut c, 9000 + i as u32, Duration::from_secs(10)) {
                    fail!(&["C17"], "slot-leak", format!("after the whole history fresh connection #{} of {} is not served", i + 1, limit));
                }
                fresh.push(c);
            }
            Err(_) => return (viols, kinds, reached_limit),
        }
    }
    if let Ok(mut c) = Cli::connect(srv.port) {
        reached_limit = true;
        if noop_answered(&mut c, 9999, Duration::from_millis(300)) {
            fail!(&["C17"], "over-limit-served", format!("after the whole history {} connections are served at once (limit {})", limit + 1, limit));
        }
    }
    for p in kv::take_server_panics() {
        viols.push((Viol::new(&["C10", "C17"], "panic-in-server", p), describe(&trace, &srv)));
    }
    (viols, kinds, reached_limit)
}

pub fn run_c17(ctx: &Ctx) -> i32 {
    install_quiet_panic_hook();
    let mut ev0 = Evidence::new(ctx, "fault_enumeration", RULE_C17);
    ev0.assumptions = vec![
        "'unserved' is judged by the absence of an answer for 300 ms, which can hide a violation but not invent one".into(),
        "bounded progress: a waiting connection not answered within 10 s although the permits show a free slot is inconclusive, not a violation".into(),
    ];
    let shared = Mutex::new(ev0);
    let n = ctx.n(48, 200);
    let next = AtomicU64::new(0);
    let deadline = if ctx.budget_s > 0 { Some(Instant::now() + Duration::from_secs(ctx.budget_s)) } else { None };
    std::thread::scope(|s| {
        // a connection that has to wait for a slot for several seconds (longer than any housekeeping period a
        // server might have) is still a waiting connection: it must be served once the slot frees
        if ctx.only_case.is_none() {
            for (multi, wait_ms) in [(false, 6500u64), (true, 11_000)] {
                let shared = &shared;
                if wait_ms > 7000 && !ctx.thorough() {
                    continue;
                }
                s.spawn(move || {
                    let srv = match Server::start(SrvCfg { conn_limit: 1, idle_s: 2, workers: if multi { Some(2) } else { None }, ..Default::default() }) {
                        Ok(s) => s,
                        Err(_) => return,
                    };
                    let mut a = match Cli::connect(srv.port) {
                        Ok(c) => c,
                        Err(_) => return,
                    };
                    if !noop_answered(&mut a, 1, Duration::from_secs(5)) {
                        return;
                    }
                    let mut b = match Cli::connect_plain(srv.port) {
                        Ok(c) => c,
                        Err(_) => return,
                    };
                    let t0 = Instant::now();
                    let mut opq = 10;
                    let mut a_alive = true;
                    while t0.elapsed() < Duration::from_millis(wait_ms) {
                        opq += 1;
                        a_alive &= noop_answered(&mut a, opq, Duration::from_secs(5));
                        std::thread::sleep(Duration::from_millis(300));
                    }
                    drop(a);
                    let served = noop_answered(&mut b, 99, Duration::from_secs(10));
                    let mut e = shared.lock().unwrap();
                    e.evaluations += 1;
                    e.count("slots:long_wait_scenarios", 1);
                    e.nontrivial.insert(fnv(format!("long-wait:{}:{}", multi, wait_ms).as_bytes()));
                    if a_alive && !served {
                        e.violation(
                            Viol::new(&["C17"], "waiter-dropped", format!("limit 1: a connection that waited {} ms for the slot (the serving connection kept busy meanwhile) was not served after the slot had freed (its connection: {:?})", wait_ms, b.end)),
                            json!({"engine":"slots-long-wait","wait_ms":wait_ms,"multi_thread":multi}),
                        );
                    }
                });
            }
        }
        for _ in 0..ctx.workers.min(12) {
            let (next, shared) = (&next, &shared);
            s.spawn(move || {
                let mut local = BTreeMap::new();
                let mut fps = vec![];
                let mut evals = 0u64;
                loop {
                    let c = next.fetch_add(1, Ordering::Relaxed);
                    let over = match deadline {
                        Some(d) => Instant::now() > d && c >= n,
                        None => c >= n,
                    };
                    if over {
                        break;
                    }
                    if let Some(o) = ctx.only_case {
                        if c != o {
                            if c > o {
                                break;
                            }
                            continue;
                        }
                    }
                    let (viols, kinds, reached) = scenario_c17(ctx, c, &mut local);
                    evals += 1;
                    if reached {
                        fps.push(fnv(&kinds.iter().map(|k| *k as u8).collect::<Vec<u8>>()));
                    }
                    let mut e = shared.lock().unwrap();
                    if c < 2 {
                        e.sample(json!({"case": c, "endings": kinds.iter().map(|k| format!("{:?}", k)).collect::<Vec<_>>()}));
                    }
                    for (v, d) in viols {
                        e.violation(v, d);
                    }
                }
                let mut e = shared.lock().unwrap();
                e.evaluations += evals;
                e.merge_counters(&local);
                for f in fps {
                    e.nontrivial.insert(f);
                }
            });
        }
    });
    shared.into_inner().unwrap().finish()
}

// ---------------------------------------------------------------------------
// C18

#[derive(Clone, Copy, Debug, PartialEq)]
pub enum Fault {
    Close,
    HalfClose,
    Reset,
    CorruptMagic,
    CorruptDataType,
    Garbage,
    Silence,
}

pub const RULE_C18: &str = "a case is one (request stream, cut offset, fault kind): the faulty connection sends the stream up to the offset and then closes / half-closes / resets / goes silent, or sends the stream with the magic or data-type byte of one frame corrupted or garbage at a frame boundary; every request of the stream leaves its own mark (append/prepend of its letter to a log key, two different increments of a counter, stores to per-request keys), so the log read by an observer connection shows exactly which requests ran, how often and in which order; it must equal the requests wholly inside the prefix (after RST: a prefix of them, each at most once); the observer's own key and responses must be unaffected and a new connection must be served; non-trivial when the cut falls inside a frame (or the fault is a corruption); distinct by (stream variant, offset class relative to frame boundaries, fault kind)";

struct Req {
    frame: wire::Frame,
    /// what its execution leaves behind
    mark: Mark,
    loud: bool,
}

#[derive(Clone, Debug)]
enum Mark {
    Append(u8),
    Prepend(u8),
    Incr(u64),
    SetKey(Vec<u8>),
    None,
}

fn canary_key(pfx: &str) -> Vec<u8> {
    format!("{}-canary", pfx).into_bytes()
}

fn canary2_key(pfx: &str) -> Vec<u8> {
    format!("{}-canary2", pfx).into_bytes()
}

fn big_value(pfx: &str) -> Vec<u8> {
    let mut v = vec![b'y'; 2500];
    v.extend(wire::store(op::SET, &canary_key(pfx), b"from-a-dead-connection", 0, 0, 0x0dead, 0).encode());
    v.extend(wire::simple(op::NOOP, 0x0dead).encode());
    v.resize(6000, b'y');
    v
}

/// cut offsets worth a scenario: every offset of small frames; for large bodies the edges and a sample
fn cut_offsets(reqs: &[Req], dense: bool) -> Vec<usize> {
    let mut out = vec![0usize];
    let mut start = 0usize;
    for r in reqs {
        let l = 24 + r.frame.body.len();
        for d in 1..=l {
            let edge = d <= 40 || d + 40 >= l;
            if l <= 500 || edge || d % (if dense { 7 } else { 61 }) == 0 {
                out.push(start + d);
            }
        }
        start += l;
    }
    out
}

fn build_stream(pfx: &str, variant: u64) -> (Vec<Req>, Vec<u8>, Vec<u8>) {
    let log = format!("{}-log", pfx).into_bytes();
    let cnt = format!("{}-cnt", pfx).into_bytes();
    let k = |i: usize| format!("{}-k{}", pfx, i).into_bytes();
    let mut v = vec![
        Req { frame: wire::concat(op::APPEND, &log, b"a", 0, 0), mark: Mark::Append(b'a'), loud: true },
        Req { frame: wire::concat(op::APPENDQ, &log, b"b", 1, 0), mark: Mark::Append(b'b'), loud: false },
        Req { frame: wire::store(op::SET, &k(2), b"x2", 5, 0, 2, 0), mark: Mark::SetKey(k(2)), loud: true },
        Req { frame: wire::concat(op::PREPEND, &log, b"c", 3, 0), mark: Mark::Prepend(b'c'), loud: true },
        Req { frame: wire::counter(op::INCR, &cnt, 1, 100, 0, 4, 0), mark: Mark::Incr(1), loud: true },
        Req { frame: wire::get(op::GETK, &log, 5), mark: Mark::None, loud: true },
        Req { frame: wire::store(op::SETQ, &k(6), &vec![b'y'; 300], 0, 0, 6, 0), mark: Mark::SetKey(k(6)), loud: false },
        Req { frame: wire::counter(op::INCRQ, &cnt, 10, 100, 0, 7, 0), mark: Mark::Incr(10), loud: false },
        // larger than the item limit of the fault servers (8192): refused with 0x03, leaves no mark, and a
        // cut inside its body puts the server into its discard loop
        Req { frame: wire::store(op::SET, &k(9), &vec![b'z'; 9000], 0, 0, 8, 0), mark: Mark::None, loud: true },
        Req { frame: wire::concat(op::APPEND, &log, b"e", 9, 0), mark: Mark::Append(b'e'), loud: true },
        // a big value within the limit (the connection's read buffer has to grow for it); part of the value
        // is itself a well-formed request that stores a canary key: a cut inside this body leaves bytes
        // behind that must die with the connection
        Req { frame: wire::store(op::SET, &k(10), &big_value(pfx), 0, 0, 10, 0), mark: Mark::SetKey(k(10)), loud: true },
        Req { frame: wire::concat(op::APPENDQ, &log, b"f", 11, 0), mark: Mark::Append(b'f'), loud: false },
        // a header-only command whose header announces a body (what a corrupted length byte produces): the body
        // belongs to that request - here it spells a quiet set of a second canary key - and is never executed
        Req { frame: wire::req(op::NOOP, &[], &[], &wire::store(op::SETQ, &canary2_key(pfx), b"from-a-noop-body", 0, 0, 0x0dead, 0).encode(), 12, 0), mark: Mark::None, loud: true },
        Req { frame: wire::concat(op::APPEND, &log, b"g", 13, 0), mark: Mark::Append(b'g'), loud: true },
    ];
    // variants reorder / drop a few so that several streams are covered
    match variant % 4 {
        1 => v.swap(0, 3),
        2 => {
            v.remove(5);
        }
        3 => v.swap(2, 6),
        _ => {}
    }
    for (i, r) in v.iter_mut().enumerate() {
        r.frame.opaque = i as u32;
    }
    (v, log, cnt)
}

/// the marks the first `n` requests leave: (log value, counter value or None, keys set)
fn expected(reqs: &[Req], n: usize) -> (Vec<u8>, Option<u64>, Vec<Vec<u8>>) {
    let mut log = b"S".to_vec();
    let mut cnt: Option<u64> = None;
    let mut keys = vec![];
    for r in &reqs[..n] {
        match &r.mark {
            Mark::Append(c) => log.push(*c),
            Mark::Prepend(c) => log.insert(0, *c),
            Mark::Incr(d) => cnt = Some(cnt.map(|x| x + d).unwrap_or(100)),
            Mark::SetKey(k) => keys.push(k.clone()),
            Mark::None => {}
        }
    }
    (log, cnt, keys)
}

pub fn run_c18(ctx: &Ctx) -> i32 {
    install_quiet_panic_hook();
    let mut ev0 = Evidence::new(ctx, "fault_enumeration", RULE_C18);
    ev0.assumptions = vec![
        "after an abortive reset TCP may discard bytes the server had not read yet: only 'a prefix, each at most once' is demanded there".into(),
        "the server is known to be done with the faulty connection through the client.exit hook, never by sleeping".into(),
    ];
    let shared = Mutex::new(ev0);
    // scenario list
    let nvar: u64 = if ctx.thorough() { 4 } else { 2 };
    let mut scen: Vec<(u64, usize, Fault)> = vec![];
    for var in 0..nvar {
        let variant = (ctx.seed + var) % 4;
        let (reqs, _, _) = build_stream("x", variant);
        let len: usize = reqs.iter().map(|r| 24 + r.frame.body.len()).sum();
        for o in cut_offsets(&reqs, ctx.thorough()) {
            for f in [Fault::Close, Fault::HalfClose, Fault::Reset] {
                scen.push((variant, o, f));
            }
        }
        for j in 0..reqs.len() {
            for f in [Fault::CorruptMagic, Fault::CorruptDataType, Fault::Garbage] {
                scen.push((variant, j, f));
            }
        }
        let step = if ctx.thorough() { 37 } else { len / 16 + 1 };
        for o in (0..=len).step_by(step) {
            scen.push((variant, o, Fault::Silence));
        }
        // silence inside the body of the oversized request (the server is in its discard loop then)
        let mut off = 0;
        for r in &reqs {
            let l = 24 + r.frame.body.len();
            if r.frame.body.len() > 4096 {
                for d in [24usize, 25, 24 + 1000, 24 + 4500, l - 1] {
                    scen.push((variant, off + d, Fault::Silence));
                }
            }
            off += l;
        }
    }
    let total = scen.len() as u64;
    let next = AtomicU64::new(0);
    std::thread::scope(|s| {
        for w in 0..ctx.workers {
            let (next, shared, scen) = (&next, &shared, &scen);
            s.spawn(move || {
                let flavour = if w % 2 == 1 && ctx.thorough() { Some(2) } else { None };
                let srv = match Server::start(SrvCfg { idle_s: 1, workers: flavour, conn_limit: 64, item_limit: 8192, ..Default::default() }) {
                    Ok(s) => s,
                    Err(_) => return,
                };
                let mut local: BTreeMap<String, u64> = BTreeMap::new();
                let mut fps = vec![];
                let mut evals = 0u64;
                loop {
                    let c = next.fetch_add(1, Ordering::Relaxed);
                    if c >= total {
                        break;
                    }
                    // the observer connection lives for the whole scenario (the server's idle timeout is 1 s,
                    // so it is kept busy while the faulty connection is silent)
                    let mut obs = match Cli::connect(srv.port) {
                        Ok(c) => c,
                        Err(_) => continue,
                    };
                    if let Some(o) = ctx.only_case {
                        if c != o {
                            continue;
                        }
                    }
                    let (variant, off, fault) = scen[c as usize];
                    let pfx = format!("s{}", c);
                    let (reqs, log, cnt) = build_stream(&pfx, variant);
                    let mut stream = vec![];
                    let mut ends = vec![];
                    for r in &reqs {
                        r.frame.encode_into(&mut stream);
                        ends.push(stream.len());
                    }
                    evals += 1;
                    let obs_key = format!("{}-obs", pfx).into_bytes();
                    // set-up through the observer
                    obs.rx.clear();
                    let r1 = ask(&mut obs, &wire::store(op::SET, &log, b"S", 0, 0, 50, 0));
                    let r2 = ask(&mut obs, &wire::store(op::SET, &obs_key, b"mine", 3, 0, 51, 0));
                    if r1.map(|r| r.status != st::OK).unwrap_or(true) || r2.map(|r| r.status != st::OK).unwrap_or(true) {
                        shared.lock().unwrap().violation(Viol::new(&["C18"], "observer-disturbed", "observer set-up store failed".into()), json!({"case":c}));
                        continue;
                    }
                    // what is sent
                    let (sent, complete, invalid_at): (Vec<u8>, usize, Option<usize>) = match fault {
                        Fault::Close | Fault::HalfClose | Fault::Reset | Fault::Silence => {
                            let n = ends.iter().filter(|e| **e <= off).count();
                            (stream[..off].to_vec(), n, None)
                        }
                        Fault::CorruptMagic | Fault::CorruptDataType | Fault::Garbage => {
                            let j = off;
                            let start = if j == 0 { 0 } else { ends[j - 1] };
                            let mut s2 = stream.clone();
                            match fault {
                                Fault::CorruptMagic => s2[start] = 0x55,
                                Fault::CorruptDataType => s2[start + 5] = 0x01,
                                _ => {
                                    s2.truncate(start);
                                    s2.extend_from_slice(&[0xff; 40]);
                                }
                            }
                            (s2, j, Some(j))
                        }
                    };
                    let describe = |extra: serde_json::Value| json!({"engine":"fault","case":c,"variant":variant,"fault":format!("{:?}",fault),"offset":off,"frame_ends":ends,"requests":reqs.iter().map(|r| op::name(r.frame.opcode)).collect::<Vec<_>>(),"complete_requests":complete,"observed":extra,"replay_cmd":format!("/verif/check C18 replay --case {}", c)});
                    let mut f = match Cli::connect(srv.port) {
                        Ok(c) => c,
                        Err(_) => continue,
                    };
                    let key = f.port;
                    // every other close / half-close is fired straight after the write, so that the data and
                    // the FIN can be in the server's socket queue together when it first looks
                    let immediate = matches!(fault, Fault::Close | Fault::HalfClose) && c % 2 == 1;
                    if !sent.is_empty() {
                        // when the oversized request and something behind it are sent, a third of the scenarios
                        // deliver its body in three pieces, so that the server's discard loop needs several
                        // reads and the last of them arrives together with the requests that follow
                        let over_idx = reqs.iter().position(|r| r.frame.body.len() > 8192);
                        let presplit = match over_idx {
                            Some(j) if c % 3 == 0 && sent.len() > ends[j] + 10 && invalid_at.map(|x| x > j).unwrap_or(true) => {
                                let so = if j == 0 { 0 } else { ends[j - 1] };
                                Some((so + 24 + 1500, so + 24 + 4500))
                            }
                            _ => None,
                        };
                        if let Some((a, b)) = presplit {
                            f.send_chunk(&sent[..a]);
                            f.send_chunk(&sent[a..b]);
                            if immediate {
                                use std::io::Write;
                                let _ = f.s.write_all(&sent[b..]);
                                f.sent += (sent.len() - b) as u64;
                            } else {
                                f.send_chunk(&sent[b..]);
                            }
                            *local.entry("scenarios_with_the_oversized_body_in_three_pieces".into()).or_insert(0) += 1;
                        } else if c % 3 == 1 && complete >= 1 && invalid_at.is_none() && {
                            let j = complete - 1;
                            let hs = (if j == 0 { 0 } else { ends[j - 1] }) + 24;
                            hs < ends[j] && ends[j] <= sent.len()
                        } {
                            // another third: the header of the last complete request arrives alone, its body (and
                            // whatever follows) in a later segment, then the fault
                            let j = complete - 1;
                            let hs = (if j == 0 { 0 } else { ends[j - 1] }) + 24;
                            f.send_chunk(&sent[..hs]);
                            if immediate {
                                use std::io::Write;
                                let _ = f.s.write_all(&sent[hs..]);
                                f.sent += (sent.len() - hs) as u64;
                            } else {
                                f.send_chunk(&sent[hs..]);
                            }
                            *local.entry("scenarios_with_the_last_header_in_a_segment_of_its_own".into()).or_insert(0) += 1;
                        } else if immediate {
                            use std::io::Write;
                            let _ = f.s.write_all(&sent);
                            f.sent += sent.len() as u64;
                        } else {
                            f.send_chunk(&sent);
                        }
                    }
                    let mut faulty_rx: Vec<u8> = vec![];
                    let mut faulty_end = End::Open;
                    match fault {
                        Fault::Close => {
                            // (not immediate: send_chunk has waited until the server took every byte out of its
                            // socket, so a reset provoked by unread responses cannot discard request bytes)
                            drop(f);
                        }
                        Fault::HalfClose => {
                            f.half_close();
                            f.read_to_end(Duration::from_secs(4));
                            faulty_rx = f.rx.clone();
                            faulty_end = f.end;
                            drop(f);
                        }
                        Fault::Reset => {
                            f.reset();
                        }
                        Fault::Silence => {
                            // the server gives up after its idle timeout (1 s); the observer keeps talking
                            let t0 = Instant::now();
                            let mut k = 0;
                            while f.end == End::Open && t0.elapsed() < Duration::from_secs(5) {
                                f.read_to_end(Duration::from_millis(250));
                                k += 1;
                                let _ = ask(&mut obs, &wire::simple(op::NOOP, 1000 + k));
                            }
                            faulty_rx = f.rx.clone();
                            faulty_end = f.end;
                            drop(f);
                        }
                        _ => {
                            f.read_to_end(Duration::from_secs(3));
                            faulty_rx = f.rx.clone();
                            faulty_end = f.end;
                            drop(f);
                        }
                    }
                    // the server is done with the faulty connection when its slot is back: only the observer
                    // holds one (a connection reset before the server looked at it has no peer address any
                    // more, so its hook events cannot be attributed; the permit count does not depend on that)
                    let mut exited = conn_log().wait(key, Duration::from_millis(if fault == Fault::Reset { 50 } else { 3000 }), |o| o.exited);
                    if !exited {
                        exited = wait_permits(&srv, 63, Duration::from_secs(5)) == 63;
                    }
                    *local.entry(format!("fault:{:?}", fault)).or_insert(0) += 1;
                    let mut viols: Vec<Viol> = vec![];
                    if !exited {
                        viols.push(Viol::new(&["C18", "C17"], "faulty-connection-not-released", format!("the server did not finish the faulty connection within 6 s ({:?} at {})", fault, off)));
                    }
                    // observer reads the marks
                    obs.rx.clear();
                    let gl = ask(&mut obs, &wire::get(op::GET, &log, 60));
                    let gc = ask(&mut obs, &wire::get(op::GET, &cnt, 61));
                    let go = ask(&mut obs, &wire::get(op::GET, &obs_key, 62));
                    let logv = gl.as_ref().filter(|r| r.status == st::OK).map(|r| r.value.clone());
                    let cntv = gc.as_ref().filter(|r| r.status == st::OK).and_then(|r| String::from_utf8(r.value.clone()).ok()).and_then(|s| s.parse::<u64>().ok());
                    *local.entry("observer_probes".into()).or_insert(0) += 3;
                    if go.as_ref().map(|r| r.status != st::OK || r.value != b"mine" || r.flags() != Some(3)).unwrap_or(true) {
                        viols.push(Viol::new(&["C18", "C01"], "observer-disturbed", format!("the observer's own key changed or its connection failed: {:?}", go.map(|r| r.brief()))));
                    } else if gl.is_none() || gc.is_none() {
                        viols.push(Viol::new(&["C18"], "observer-disturbed", "the observer connection stopped answering".into()));
                    } else {
                        // which prefix lengths explain the marks?
                        // an immediate close() with unread responses in the client's receive queue is answered by
                        // the kernel with RST, which may discard request bytes the server had not read yet: the
                        // same "prefix, each at most once" rule as for an abortive reset applies (TCP, not memcrs)
                        // (also for a close() after the server has read everything: a failed response write to the
                        // reset peer ends the connection with requests still buffered. The orderly close, where
                        // every completed request must run exactly once, is the half-close fault: FIN, then the
                        // client reads to the end.)
                        let prefix_rule = fault == Fault::Reset || fault == Fault::Close;
                        let candidates: Vec<usize> = if prefix_rule { (0..=complete).collect() } else { vec![complete] };
                        let mut explained = false;
                        for n in &candidates {
                            let (elog, ecnt, ekeys) = expected(&reqs, *n);
                            if logv.as_deref() == Some(&elog[..]) && cntv == ecnt {
                                // per-request keys: exactly those
                                let mut ok = true;
                                for (i, r) in reqs.iter().enumerate() {
                                    if let Mark::SetKey(k) = &r.mark {
                                        let g = ask(&mut obs, &wire::get(op::GET, k, 70 + i as u32));
                                        let present = g.map(|r| r.status == st::OK).unwrap_or(false);
                                        if present != ekeys.contains(k) {
                                            ok = false;
                                        }
                                    }
                                }
                                if ok {
                                    explained = true;
                                    break;
                                }
                            }
                        }
                        if !explained {
                            let (elog, ecnt, _) = expected(&reqs, complete);
                            viols.push(Viol::new(
                                &["C18", "C09"],
                                "prefix-not-exactly-once",
                                format!(
                                    "{:?} at offset {}: {} requests were completely sent{}; expected log {:?} counter {:?}{}, observed log {:?} counter {:?}",
                                    fault,
                                    off,
                                    complete,
                                    invalid_at.map(|j| format!(" before the invalid frame #{}", j)).unwrap_or_default(),
                                    String::from_utf8_lossy(&elog),
                                    ecnt,
                                    if prefix_rule { " (or a prefix of that)" } else { "" },
                                    logv.as_ref().map(|v| String::from_utf8_lossy(v).to_string()),
                                    cntv
                                ),
                            ));
                        }
                    }
                    // bytes inside a request body never become requests, on this connection or a later one
                    if ask(&mut obs, &wire::get(op::GET, &canary_key(&pfx), 63)).map(|r| r.status == st::OK).unwrap_or(false) {
                        viols.push(Viol::new(&["C18", "C09"], "body-bytes-executed", format!("{:?} at offset {}: the canary request embedded in the big value's body was executed", fault, off)));
                    }
                    if ask(&mut obs, &wire::get(op::GET, &canary2_key(&pfx), 64)).map(|r| r.status == st::OK).unwrap_or(false) {
                        viols.push(Viol::new(&["C18", "C09"], "body-bytes-executed", format!("{:?} at offset {}: the request spelled by the body of the noop was executed", fault, off)));
                    }
                    // responses on the faulty connection where they can be read reliably
                    if viols.is_empty() && matches!(fault, Fault::HalfClose | Fault::Silence | Fault::CorruptMagic | Fault::CorruptDataType | Fault::Garbage) && faulty_end != End::Reset {
                        match wire::parse_all(&faulty_rx) {
                            Err(e) => viols.push(Viol::new(&["C11", "C18"], "resp-grammar", e)),
                            Ok(rs) => {
                                let want: Vec<u32> = reqs[..complete].iter().filter(|r| r.loud).map(|r| r.frame.opaque).collect();
                                // an incomplete oversized request may be refused ('too large') before its body has
                                // arrived in full: a refusal is an answer, not an execution
                                let next_opq = reqs.get(complete).map(|r| r.frame.opaque);
                                let got: Vec<u32> = rs.iter().filter(|r| !(Some(r.opaque) == next_opq && crate::frame::is_refusal(Some(r.status)))).map(|r| r.opaque).collect();
                                *local.entry("faulty_response_streams_checked".into()).or_insert(0) += 1;
                                if got != want {
                                    viols.push(Viol::new(&["C18", "C12"], "responses-of-completed-prefix", format!("{:?} at {}: responses for opaques {:?}, expected one per loud completed request {:?}", fault, off, got, want)));
                                }
                                if faulty_end != End::Eof {
                                    viols.push(Viol::new(&["C18"], "faulty-connection-not-closed", format!("{:?} at {}: connection not closed by the server ({:?})", fault, off, faulty_end)));
                                }
                            }
                        }
                    }
                    // the server keeps serving
                    if viols.is_empty() {
                        match Cli::connect(srv.port) {
                            Ok(mut nc) => {
                                let r = ask(&mut nc, &wire::simple(op::NOOP, 90));
                                if r.map(|r| r.status != st::OK).unwrap_or(true) {
                                    viols.push(Viol::new(&["C18"], "server-stopped-serving", format!("after {:?} at {} a new connection is not served", fault, off)));
                                }
                            }
                            Err(e) => viols.push(Viol::new(&["C18"], "server-stopped-serving", format!("after {:?} at {} a new connection fails: {}", fault, off, e))),
                        }
                    }
                    for p in kv::take_server_panics() {
                        viols.push(Viol::new(&["C10", "C18"], "panic-in-server", p));
                    }
                    let inside = match fault {
                        Fault::Close | Fault::HalfClose | Fault::Reset | Fault::Silence => !ends.contains(&off) && off != 0,
                        _ => true,
                    };
                    if inside {
                        fps.push(fnv(format!("{}:{}:{:?}", variant, off, fault).as_bytes()));
                    }
                    if c < 2 {
                        shared.lock().unwrap().sample(describe(json!({"log": logv.as_ref().map(|v| String::from_utf8_lossy(v).to_string()), "counter": cntv})));
                    }
                    if !viols.is_empty() {
                        let mut e = shared.lock().unwrap();
                        for v in viols {
                            e.violation(v, describe(json!({"log": logv.as_ref().map(|v| String::from_utf8_lossy(v).to_string()), "counter": cntv, "faulty_connection_end": format!("{:?}", faulty_end)})));
                        }
                    }
                }
                let mut e = shared.lock().unwrap();
                e.evaluations += evals;
                e.merge_counters(&local);
                for f in fps {
                    e.nontrivial.insert(f);
                }
            });
        }
    });
    let mut ev = shared.into_inner().unwrap();
    ev.exhaustive = true;
    ev.extra.insert("scenarios_enumerated".into(), json!(total));
    ev.finish()
}

// ---------------------------------------------------------------------------
// C16 socket leg: a peer that stalls - in any state of a request - never blocks the other connections

pub const RULE_STALL: &str = "a case is one (runtime flavour, stalled-peer kind, number of stalled peers): the peers bring their connections into the state (in the middle of a header, of a within-limit body, of an oversized body being discarded, with responses they never read, after quiet commands, ...) and then go silent while keeping the socket open; an observer that connects afterwards must get five round trips (set, get, noop, incr, delete) answered; unanswered for 10 s while the stalled peers are pending is a violation (with the per-thread CPU consumption of the server for the diagnosis); non-trivial always; distinct by the case tuple";

#[derive(Clone, Copy, Debug, PartialEq)]
enum StallKind {
    MidHeader,
    MidBody,
    OversizedHeaderOnly,
    OversizedPartBody,
    OversizedByteAtATime,
    UnreadResponses,
    AfterQuiet,
    AfterLoud,
}

const STALLS: [StallKind; 8] = [
    StallKind::MidHeader,
    StallKind::MidBody,
    StallKind::OversizedHeaderOnly,
    StallKind::OversizedPartBody,
    StallKind::OversizedByteAtATime,
    StallKind::UnreadResponses,
    StallKind::AfterQuiet,
    StallKind::AfterLoud,
];

fn server_thread_cpu() -> Vec<(String, char, u64)> {
    let mut out = vec![];
    if let Ok(rd) = std::fs::read_dir("/proc/self/task") {
        for e in rd.flatten() {
            if let Ok(tid) = e.file_name().to_string_lossy().parse::<i32>() {
                let comm = std::fs::read_to_string(format!("/proc/self/task/{}/comm", tid)).unwrap_or_default().trim().to_string();
                if comm.starts_with("mcv-srv") || comm.starts_with("tokio-runtime") {
                    if let Some((st, cpu)) = crate::gate::task_stat(tid) {
                        out.push((format!("{}:{}", comm, tid), st, cpu));
                    }
                }
            }
        }
    }
    out
}

/// CPU time (clock ticks) consumed so far by all server threads of this process
pub fn server_thread_cpu_total() -> u64 {
    server_thread_cpu().iter().map(|x| x.2).sum()
}

pub fn run_stall(ctx: &Ctx) -> i32 {
    use std::io::Write;
    install_quiet_panic_hook();
    let mut ev0 = Evidence::new(ctx, "exploration", RULE_STALL);
    ev0.assumptions = vec![
        "in-process MemcacheTcpServer on loopback; receive timeout 60 s so that the stalled peers stay connected for the whole case".into(),
        "wall clock only as a generous bound: a correct server answers the observer within milliseconds, the verdict threshold is 10 s".into(),
    ];
    let shared = Mutex::new(ev0);
    let mut cases: Vec<(bool, StallKind, usize)> = vec![];
    for multi in [false, true] {
        for k in STALLS {
            for n in if ctx.thorough() { vec![1usize, 2, 3, 6] } else { vec![1usize, 3] } {
                cases.push((multi, k, n));
            }
        }
    }
    let next = AtomicU64::new(0);
    std::thread::scope(|s| {
        for _ in 0..ctx.workers.min(8) {
            let (next, shared, cases) = (&next, &shared, &cases);
            s.spawn(move || {
                let mut local: BTreeMap<String, u64> = BTreeMap::new();
                let mut evals = 0u64;
                let mut fps = vec![];
                loop {
                    let c = next.fetch_add(1, Ordering::Relaxed) as usize;
                    if c >= cases.len() {
                        break;
                    }
                    if let Some(o) = ctx.only_case {
                        if c as u64 != o {
                            continue;
                        }
                    }
                    let (multi, kind, npeers) = cases[c];
                    let limit = 1024u32;
                    let srv = match Server::start(SrvCfg { idle_s: 60, item_limit: limit, workers: if multi { Some(2) } else { None }, conn_limit: 64, ..Default::default() }) {
                        Ok(s) => s,
                        Err(e) => {
                            shared.lock().unwrap().inconclusive.push(format!("server start failed: {}", e));
                            continue;
                        }
                    };
                    // a big value for the unread-responses peers
                    if kind == StallKind::UnreadResponses {
                        if let Ok(mut c0) = Cli::connect(srv.port) {
                            let _ = ask(&mut c0, &wire::store(op::SET, b"big", &vec![b'v'; 900], 0, 0, 1, 0));
                        }
                    }
                    let mut peers: Vec<Cli> = vec![];
                    for p in 0..npeers {
                        let mut c = match Cli::connect(srv.port) {
                            Ok(c) => c,
                            Err(_) => continue,
                        };
                        let key = format!("stall-{}", p).into_bytes();
                        let over = wire::store(op::SET, &key, &vec![b'o'; 5000], 0, 0, 7, 0).encode();
                        let within = wire::store(op::SET, &key, &vec![b'w'; 800], 0, 0, 7, 0).encode();
                        let _ = match kind {
                            StallKind::MidHeader => c.s.write_all(&within[..11 + p % 12]),
                            StallKind::MidBody => c.s.write_all(&within[..24 + 100 + p]),
                            StallKind::OversizedHeaderOnly => c.s.write_all(&over[..24]),
                            StallKind::OversizedPartBody => c.s.write_all(&over[..24 + 1500 + p]),
                            StallKind::OversizedByteAtATime => {
                                let _ = c.s.write_all(&over[..24]);
                                for b in &over[24..64] {
                                    let _ = c.s.write_all(&[*b]);
                                    std::thread::sleep(Duration::from_millis(2));
                                }
                                Ok(())
                            }
                            StallKind::UnreadResponses => {
                                // far more response bytes than the socket buffers hold, never read
                                let mut req = vec![];
                                for i in 0..4000u32 {
                                    wire::get(op::GET, b"big", i).encode_into(&mut req);
                                }
                                let _ = c.s.set_write_timeout(Some(Duration::from_millis(300)));
                                c.s.write_all(&req)
                            }
                            StallKind::AfterQuiet => {
                                let mut req = vec![];
                                for i in 0..20u32 {
                                    wire::store(op::SETQ, &key, b"q", 0, 0, i, 0).encode_into(&mut req);
                                }
                                c.s.write_all(&req)
                            }
                            StallKind::AfterLoud => {
                                let _ = ask(&mut c, &wire::store(op::SET, &key, b"l", 0, 0, 1, 0));
                                Ok(())
                            }
                        };
                        peers.push(c);
                    }
                    std::thread::sleep(Duration::from_millis(60));
                    let cpu0 = server_thread_cpu();
                    let t0 = Instant::now();
                    // the observer connects now: accept loop and request handling must both be alive
                    let mut answered = 0usize;
                    let mut trail: Vec<String> = vec![];
                    if let Ok(mut obs) = Cli::connect_plain(srv.port) {
                        let _ = obs.s.set_read_timeout(Some(Duration::from_millis(200)));
                        let probes = [
                            wire::store(op::SET, b"obs", b"1", 0, 0, 101, 0),
                            wire::get(op::GET, b"obs", 102),
                            wire::simple(op::NOOP, 103),
                            wire::counter(op::INCR, b"obs", 1, 0, 0, 104, 0),
                            wire::delete(op::DELETE, b"obs", 105, 0),
                        ];
                        for f in &probes {
                            if obs.s.write_all(&f.encode()).is_err() {
                                break;
                            }
                            let want = f.opaque;
                            let t1 = Instant::now();
                            let mut got = false;
                            while t1.elapsed() < Duration::from_secs(10) {
                                obs.read_frames(answered + 1, Duration::from_millis(100));
                                if parse_prefix(&obs.rx).iter().any(|r| r.opaque == want) {
                                    got = true;
                                    break;
                                }
                                if obs.end != End::Open {
                                    break;
                                }
                            }
                            if !got {
                                trail.push(format!("{} (opaque {}) unanswered after {:.1} s, connection {:?}", op::name(f.opcode), want, t1.elapsed().as_secs_f32(), obs.end));
                                break;
                            }
                            answered += 1;
                        }
                    } else {
                        trail.push("observer could not connect".into());
                    }
                    let waited = t0.elapsed();
                    let cpu1 = server_thread_cpu();
                    evals += 1;
                    fps.push(fnv(format!("{}:{:?}:{}", multi, kind, npeers).as_bytes()));
                    *local.entry(format!("stall:{:?}:observer_round_trips_answered", kind)).or_insert(0) += answered as u64;
                    *local.entry("stall:observer_wait_ms_total".into()).or_insert(0) += waited.as_millis() as u64;
                    if answered < 5 {
                        let cpu: Vec<String> = cpu1
                            .iter()
                            .map(|(n, st, c1)| {
                                let c0 = cpu0.iter().find(|x| x.0 == *n).map(|x| x.2).unwrap_or(*c1);
                                format!("{} state {} +{} ticks", n, st, c1 - c0)
                            })
                            .collect();
                        let burning = cpu1.iter().any(|(n, _, c1)| cpu0.iter().find(|x| x.0 == *n).map(|x| c1 - x.2 > 300).unwrap_or(false));
                        shared.lock().unwrap().violation(
                            Viol::new(
                                &["C16", "C10"],
                                if burning { "stalled-peer-spins-server" } else { "stalled-peer-blocks-others" },
                                format!(
                                    "{} peer(s) stalled {:?} on a {} server: the observer got {} of 5 round trips answered ({}); server threads during the wait: {:?}",
                                    npeers,
                                    kind,
                                    if multi { "2-worker" } else { "current-thread" },
                                    answered,
                                    trail.join("; "),
                                    cpu
                                ),
                            ),
                            json!({"engine":"stall","case":c,"kind":format!("{:?}",kind),"peers":npeers,"multi_thread":multi,"answered":answered,"threads":cpu,"replay_cmd":format!("/verif/check C16 replay --case {}", c)}),
                        );
                    }
                    drop(peers);
                }
                let mut e = shared.lock().unwrap();
                e.evaluations += evals;
                e.merge_counters(&local);
                for f in fps {
                    e.nontrivial.insert(f);
                }
            });
        }
    });
    // the connection limit is reached exactly, a further peer connects and stays silent, the served ones leave:
    // an observer arriving then must be served (a silent waiter must not hold up the accept loop)
    if ctx.only_case.is_none() {
        let mut outs: Vec<(bool, usize, usize, String)> = vec![];
        std::thread::scope(|s| {
            let hs: Vec<_> = [(false, 1usize), (false, 2), (true, 2), (true, 3)]
                .into_iter()
                .map(|(multi, limit)| {
                    s.spawn(move || -> Option<(bool, usize, usize, String)> {
                        let srv = Server::start(SrvCfg { idle_s: 60, item_limit: 1024, workers: if multi { Some(2) } else { None }, conn_limit: limit as u32, ..Default::default() }).ok()?;
                        let mut served: Vec<Cli> = vec![];
                        for i in 0..limit {
                            let mut c = Cli::connect(srv.port).ok()?;
                            let _ = ask(&mut c, &wire::simple(op::NOOP, 1 + i as u32))?;
                            served.push(c);
                        }
                        // over the limit and silent
                        let silent = Cli::connect_plain(srv.port).ok()?;
                        std::thread::sleep(Duration::from_millis(150));
                        drop(served);
                        std::thread::sleep(Duration::from_millis(150));
                        let mut answered = 0usize;
                        let mut note = String::new();
                        if limit >= 2 {
                            // one slot for the silent peer, one for the observer
                            if let Ok(mut obs) = Cli::connect_plain(srv.port) {
                                for i in 0..3u32 {
                                    use std::io::Write;
                                    if obs.s.write_all(&wire::simple(op::NOOP, 200 + i).encode()).is_err() {
                                        break;
                                    }
                                    let t1 = Instant::now();
                                    let mut got = false;
                                    while t1.elapsed() < Duration::from_secs(10) {
                                        obs.read_frames(answered + 1, Duration::from_millis(100));
                                        if parse_prefix(&obs.rx).iter().any(|r| r.opaque == 200 + i) {
                                            got = true;
                                            break;
                                        }
                                    }
                                    if !got {
                                        note = format!("noop #{} of an observer that connected after the served connections had left was not answered within 10 s", i);
                                        break;
                                    }
                                    answered += 1;
                                }
                            }
                        } else {
                            // limit 1: the silent peer itself gets the slot; it must be served when it finally speaks
                            let mut c = silent;
                            use std::io::Write;
                            let _ = c.s.write_all(&wire::simple(op::NOOP, 300).encode());
                            c.read_frames(1, Duration::from_secs(10));
                            if parse_prefix(&c.rx).iter().any(|r| r.opaque == 300) {
                                answered = 3;
                            } else {
                                note = "the waiting peer was not served after the slot had freed".into();
                            }
                            return Some((multi, limit, answered, note));
                        }
                        drop(silent);
                        Some((multi, limit, answered, note))
                    })
                })
                .collect();
            for h in hs {
                if let Ok(Some(o)) = h.join() {
                    outs.push(o);
                }
            }
        });
        // every slot has been used by a connection that the server ended on its receive timeout: the next client
        // must be served (connections ending by timeout must not wear the server out)
        let mut touts: Vec<(bool, bool, String)> = vec![];
        std::thread::scope(|s| {
            let hs: Vec<_> = [false, true]
                .into_iter()
                .map(|multi| {
                    s.spawn(move || -> Option<(bool, bool, String)> {
                        let srv = Server::start(SrvCfg { idle_s: 1, item_limit: 1024, workers: if multi { Some(2) } else { None }, conn_limit: 2, ..Default::default() }).ok()?;
                        for round in 0..2 {
                            let mut idle: Vec<Cli> = vec![];
                            for i in 0..2u32 {
                                let mut c = Cli::connect(srv.port).ok()?;
                                if round == 0 {
                                    let _ = ask(&mut c, &wire::simple(op::NOOP, 1 + i));
                                }
                                idle.push(c);
                            }
                            for c in idle.iter_mut() {
                                c.read_to_end(Duration::from_secs(5));
                            }
                        }
                        let mut obs = Cli::connect_plain(srv.port).ok()?;
                        use std::io::Write;
                        let _ = obs.s.write_all(&wire::simple(op::NOOP, 400).encode());
                        obs.read_frames(1, Duration::from_secs(10));
                        let ok = parse_prefix(&obs.rx).iter().any(|r| r.opaque == 400);
                        Some((multi, ok, format!("{:?}", obs.end)))
                    })
                })
                .collect();
            for h in hs {
                if let Ok(Some(o)) = h.join() {
                    touts.push(o);
                }
            }
        });
        let mut e = shared.lock().unwrap();
        for (multi, ok, end) in touts {
            e.evaluations += 1;
            e.count("stall:after_timeouts_scenarios", 1);
            e.nontrivial.insert(fnv(format!("after-timeouts:{}", multi).as_bytes()));
            if !ok {
                e.violation(
                    Viol::new(&["C16", "C17"], "timeouts-wear-out-the-server", format!("connection limit 2 on a {} server; four connections in turn were ended by the server on its 1 s receive timeout; a client arriving afterwards got no answer to a noop within 10 s (its connection: {})", if multi { "2-worker" } else { "current-thread" }, end)),
                    json!({"engine":"stall-after-timeouts","multi_thread":multi}),
                );
            }
        }
        for (multi, limit, answered, note) in outs {
            e.evaluations += 1;
            e.count("stall:silent_waiter_scenarios", 1);
            e.nontrivial.insert(fnv(format!("silent-waiter:{}:{}", multi, limit).as_bytes()));
            if answered < 3 {
                e.violation(
                    Viol::new(&["C16", "C17"], "silent-waiter-blocks-accept", format!("connection limit {} on a {} server, reached exactly; one more peer connects and stays silent; the served connections leave: {}", limit, if multi { "2-worker" } else { "current-thread" }, note)),
                    json!({"engine":"stall-silent-waiter","limit":limit,"multi_thread":multi,"answered":answered}),
                );
            }
        }
    }
    shared.into_inner().unwrap().finish()
}
